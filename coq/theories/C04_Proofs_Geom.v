(* C04 - proofs about the geometry of a tiled segmentation relative to its
   source image: default tile size, shape guard, declared total pixel matrix
   size, and the round trip through the declared size. *)
From Coq Require Import String ZArith List Bool Lia ZifyBool.
From HD Require Import Base.Val Base.ListZ C12_Model C12_Proofs C04_Model C04_Proofs C04_Proofs_Store.
Import ListNotations.
Ltac Zify.zify_post_hook ::= Z.to_euclidean_division_equations.
Open Scope Z_scope.

(* whatever is accepted declares the shape of the array that was passed *)
Lemma seg_declared_shape : forall pres R C SR SC th tw sth stw d,
  seg_declared pres R C SR SC th tw sth stw = Ok d -> d = (R, C).
Proof.
  intros pres R C SR SC th tw sth stw d H. unfold seg_declared in H.
  destruct pres; [|now inversion H].
  destruct ((R =? SR) && (C =? SC)) eqn:E; cbn [negb] in H; [|discriminate].
  destruct ((th =? sth) && (tw =? stw)); inversion H; subst; [|reflexivity].
  f_equal; lia.
Qed.

Lemma seg_declared_eq : forall pres R C SR SC th tw sth stw,
  seg_declared pres R C SR SC th tw sth stw =
  if pres && negb ((R =? SR) && (C =? SC)) then Err "ValueError" else Ok (R, C).
Proof.
  intros. unfold seg_declared. destruct pres; cbn [andb]; [|reflexivity].
  destruct ((R =? SR) && (C =? SC)) eqn:E; cbn [negb]; [|reflexivity].
  destruct ((th =? sth) && (tw =? stw)); [|reflexivity].
  f_equal. f_equal; lia.
Qed.

Lemma seg_declared_refuses_iff : forall pres R C SR SC th tw sth stw,
  seg_declared pres R C SR SC th tw sth stw = Err "ValueError" <->
  (pres = true /\ (R <> SR \/ C <> SC)).
Proof.
  intros. rewrite seg_declared_eq. destruct pres; cbn [andb].
  - destruct ((R =? SR) && (C =? SC)) eqn:E; cbn [negb]; split; intro H.
    + discriminate.
    + destruct H as [_ H]. lia.
    + split; [reflexivity|lia].
    + reflexivity.
  - split; intro H; [discriminate|destruct H; discriminate].
Qed.

Lemma tpm_preserved_iff : forall o uo os um ms,
  tpm_preserved o uo os um ms = true <->
  (o = true /\ (uo = true -> os = true) /\ (um = true -> ms = true)).
Proof. intros. unfold tpm_preserved. destruct o, uo, os, um, ms; cbn; intuition congruence. Qed.

Definition geom_refused (R C : Z) (g : geom) : bool :=
  negb (pp_ok (g_pp g)) || (g_pres g && negb ((R =? g_SR g) && (C =? g_SC g))).

(* construction with geometry = the plain construction with the effective
   tile size, declaring exactly the shape of the mask, unless refused *)
Lemma stored_geom_eq : forall ty mf full omit planes segs R C g,
  stored_geom ty mf full omit planes segs R C g =
  let th := fst (eff_tile (g_tile g) (g_sth g) (g_stw g)) in
  let tw := snd (eff_tile (g_tile g) (g_sth g) (g_stw g)) in
  if geom_refused R C g then Err "ValueError"
  else bind (stored ty mf full omit planes segs R C th tw) (fun st => Ok (th, tw, R, C, st)).
Proof.
  intros. unfold stored_geom, geom_refused, stored. cbv zeta.
  destruct (pp_ok (g_pp g)); cbn [negb orb]; [|reflexivity].
  rewrite seg_declared_eq.
  destruct (g_pres g && negb ((R =? g_SR g) && (C =? g_SC g))); cbn [bind]; [reflexivity|].
  destruct (seg_store ty mf full omit planes R C _ _); cbn [bind fst snd]; reflexivity.
Qed.

Lemma stored_geom_ok : forall ty mf full omit planes segs R C g th tw RD CD st,
  stored_geom ty mf full omit planes segs R C g = Ok (th, tw, RD, CD, st) ->
  (th, tw) = eff_tile (g_tile g) (g_sth g) (g_stw g) /\ RD = R /\ CD = C /\
  geom_refused R C g = false /\
  stored ty mf full omit planes segs R C th tw = Ok st.
Proof.
  intros ty mf full omit planes segs R C g th tw RD CD st H.
  rewrite stored_geom_eq in H. cbv zeta in H.
  destruct (geom_refused R C g); [discriminate|].
  destruct (stored ty mf full omit planes segs R C _ _) eqn:E; cbn [bind] in H; [|discriminate].
  inversion H; subst. repeat split; try reflexivity.
  - now destruct (eff_tile (g_tile g) (g_sth g) (g_stw g)).
  - exact E.
Qed.

(* the round trip through the DECLARED total pixel matrix size *)
Lemma geom_tile_then_read : forall ty mf full omit planes R C g th tw RD CD st k Mk s e cs ce i j,
  1 <= R -> 1 <= C -> 1 <= th -> 1 <= tw ->
  NoDup (map fst planes) -> In (k, Mk) planes -> wf_matrix Mk R C ->
  stored_geom ty mf full omit planes (map fst planes) R C g = Ok (th, tw, RD, CD, st) ->
  1 <= s -> e <= RD + 1 -> 1 <= cs -> ce <= CD + 1 -> 0 <= i < e - s -> 0 <= j < ce - cs ->
  cell (read_region (tiles_of_seg k st) s e cs ce th tw) i j =
  cell Mk (s - 1 + i) (cs - 1 + j) * factor ty mf.
Proof.
  intros ty mf full omit planes R C g th tw RD CD st k Mk s e cs ce i j
         HR HC Hth Htw Hnd Hin Hwf Hst Hs He Hcs Hce Hi Hj.
  apply stored_geom_ok in Hst. destruct Hst as (_ & -> & -> & _ & Hst).
  unfold stored in Hst.
  destruct (seg_store ty mf full omit planes R C th tw) as [l|] eqn:E; cbn [bind] in Hst; [|discriminate].
  inversion Hst as [Hst2]; clear Hst.
  assert (Hst' : (if full then reimply_full (map fst planes) R C th tw l else l) = l).
  { destruct full; [|reflexivity]. now apply (seg_full_equals_sparse ty mf omit). }
  subst st. rewrite Hst'.
  now apply (tile_then_read ty mf full omit planes R C th tw l k Mk).
Qed.
