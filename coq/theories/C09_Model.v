(* C09 - model of geometry comparison, geometry matching and the
   volume-to-volume index transformer.
   Mirrors (src/highdicom/volume.py, current tree):
     _VolumeBase.geometry_equal            (FoR conflict, shape, coordinate system, allclose/array_equal)
     _VolumeBase.match_geometry            (component-wise axis alignment, stride, per-axis start/end/pad/crop, requires_* flags,
                                            then permute -> pad -> getitem)
     _VolumeBase._prepare_getitem_index    (slice checks, slice.indices, size, new affine)  - as used by match_geometry
     _VolumeBase.map_reference_to_indices  (inverse affine, bounds check before rounding, RuntimeError)
     VolumeToVolumeTransformer             (inv(B) . A, rounding, bounds check after rounding, ValueError)
   Numbers: indices/shapes are Z, coordinates are exact rationals (Q).
   A geometry is given by its three unit vectors, three spacings and position
   (affine column j = spacing_j * unit_j), so that no square root is needed;
   float rounding and np.sqrt are an oracle premise of the correspondence. *)
From Coq Require Import ZArith List Bool String QArith Qround.
From HD Require Import Base.Val Base.PySlice.
Import ListNotations.
Open Scope Z_scope.

(* ---- three axes --------------------------------------------------------- *)
Inductive ax : Type := X0 | X1 | X2.
Definition ax_eqb (a b : ax) : bool :=
  match a, b with X0, X0 | X1, X1 | X2, X2 => true | _, _ => false end.
Definition ax_z (a : ax) : Z := match a with X0 => 0 | X1 => 1 | X2 => 2 end.
Record t3 (A : Type) : Type := T3 { p0 : A; p1 : A; p2 : A }.
Arguments T3 {A} _ _ _.
Arguments p0 {A} _.
Arguments p1 {A} _.
Arguments p2 {A} _.
Definition sel {A} (t : t3 A) (i : ax) : A :=
  match i with X0 => p0 t | X1 => p1 t | X2 => p2 t end.
Definition tab {A} (f : ax -> A) : t3 A := T3 (f X0) (f X1) (f X2).
Definition t3_list {A} (t : t3 A) : list A := [p0 t; p1 t; p2 t].

(* ---- rational vectors ---------------------------------------------------- *)
Record vec3 : Type := V3 { vx : Q; vy : Q; vz : Q }.
Definition vadd (a b : vec3) := V3 (vx a + vx b) (vy a + vy b) (vz a + vz b).
Definition vsub (a b : vec3) := V3 (vx a - vx b) (vy a - vy b) (vz a - vz b).
Definition vscale (k : Q) (a : vec3) := V3 (k * vx a) (k * vy a) (k * vz a).
Definition dot (a b : vec3) : Q := vx a * vx b + vy a * vy b + vz a * vz b.
Definition veq (a b : vec3) : Prop := vx a == vx b /\ vy a == vy b /\ vz a == vz b.

Definition Qltb (a b : Q) : bool := negb (Qle_bool b a).
Definition Qabs' (q : Q) : Q := if Qle_bool 0 q then q else - q.

(* Python round() / np.round on a real: round half to even *)
Definition rne (q : Q) : Z :=
  let f := Qfloor q in
  match Qcompare (q - inject_Z f) (1 # 2) with
  | Lt => f
  | Gt => f + 1
  | Eq => if Z.even f then f else f + 1
  end.

(* ---- geometries ------------------------------------------------------------ *)
Record geom : Type := Geom {
  g_shape : t3 Z;
  g_cs    : Z;                 (* 0 = PATIENT, 1 = SLIDE *)
  g_for   : option Z;          (* frame of reference UID (token) or None *)
  g_unit  : t3 vec3;           (* direction columns *)
  g_spac  : t3 Q;              (* spacings *)
  g_pos   : vec3 }.
Definition col (g : geom) (j : ax) : vec3 := vscale (sel (g_spac g) j) (sel (g_unit g) j).

(* geometry as affine only (what operations return) *)
Record ageom : Type := AGeom { a_shape : t3 Z; a_cols : t3 vec3; a_pos : vec3 }.
Definition to_ageom (g : geom) : ageom := AGeom (g_shape g) (tab (col g)) (g_pos g).

(* ---- geometry_equal ----------------------------------------------------------- *)
Definition for_conflict (a b : option Z) : bool :=
  match a, b with Some u, Some v => negb (u =? v) | _, _ => false end.
Definition shape_eqb (a b : t3 Z) : bool :=
  (p0 a =? p0 b) && (p1 a =? p1 b) && (p2 a =? p2 b).
Definition rtol : Q := 1 # 100000.     (* numpy.allclose default rtol *)
(* np.allclose(a, b, atol=tol): |a-b| <= atol + rtol*|b| ; tol=None: array_equal *)
Definition qclose (tol : option Q) (a b : Q) : bool :=
  match tol with
  | None => Qeq_bool a b
  | Some t => Qle_bool (Qabs' (a - b)) (t + rtol * Qabs' b)
  end.
Definition vclose (tol : option Q) (a b : vec3) : bool :=
  qclose tol (vx a) (vx b) && qclose tol (vy a) (vy b) && qclose tol (vz a) (vz b).
Definition affine_close (tol : option Q) (g h : geom) : bool :=
  vclose tol (col g X0) (col h X0) && vclose tol (col g X1) (col h X1) &&
  vclose tol (col g X2) (col h X2) && vclose tol (g_pos g) (g_pos h).
Definition geometry_equal (tol : option Q) (g h : geom) : bool :=
  if for_conflict (g_for g) (g_for h) then false
  else if negb (shape_eqb (g_shape g) (g_shape h)) then false
  else if negb (g_cs g =? g_cs h) then false
  else affine_close tol g h.

(* ---- match_geometry: axis alignment and stride ---------------------------------- *)
(* np.allclose(u, v, rtol=0, atol=tol): every component within tol (<=) *)
Definition vallclose (tol : Q) (a b : vec3) : bool :=
  Qle_bool (Qabs' (vx a - vx b)) tol && Qle_bool (Qabs' (vy a - vy b)) tol && Qle_bool (Qabs' (vz a - vz b)) tol.
Definition vneg (v : vec3) : vec3 := V3 (- vx v) (- vy v) (- vz v).
(* axes are aligned when the unit vectors agree component-wise up to sign *)
Definition aligned (tol : Q) (u v : vec3) : bool := vallclose tol u v || vallclose tol u (vneg v).
Definition find_axis (tol : Q) (g : geom) (u : vec3) : option ax :=
  if aligned tol u (sel (g_unit g) X0) then Some X0
  else if aligned tol u (sel (g_unit g) X1) then Some X1
  else if aligned tol u (sel (g_unit g) X2) then Some X2
  else None.
Definition RT : string := "RuntimeError".
Definition VE : string := "ValueError".
Definition IE : string := "IndexError".
(* one target axis (unit u, spacing s): source axis index and signed step *)
Definition axis_step (tol : Q) (g : geom) (u : vec3) (s : Q) : res (ax * Z) :=
  match find_axis tol g u with
  | None => Err RT
  | Some j =>
      let sf := (s / sel (g_spac g) j)%Q in
      let st := rne sf in
      (* a stride that rounds to 0 is refused like a non-integer one (fix D104) *)
      if (st =? 0) || Qltb tol (Qabs' (sf - inject_Z st)) then Err RT
      else Ok (j, if Qltb (dot u (sel (g_unit g) j)) 0 then - st else st)
  end.

(* per-axis pad / crop plan *)
Record axplan : Type := AxPlan {
  pl_pb : Z; pl_pa : Z; pl_start : Z; pl_stop : option Z; pl_step : Z; pl_crop : bool }.
Definition axis_plan (tol : Q) (start_ind : Q) (step out_shape in_shape : Z) : res axplan :=
  let start_pos := rne start_ind in
  let end_pos := start_pos + out_shape * step in
  if Qltb tol (Qabs' (inject_Z start_pos - start_ind)) then Err RT
  else if 0 <? step then
    let pb := Z.max (- start_pos) 0 in
    let pa := Z.max (end_pos - in_shape) 0 in
    Ok (AxPlan pb pa (start_pos + pb) (Some (end_pos + pb)) step
               ((0 <? start_pos + pb) || (end_pos <? in_shape) || (1 <? step)))
  else
    let pa := Z.max (start_pos - in_shape + 1) 0 in
    let pb := Z.max (- end_pos - 1) 0 in
    let cs := end_pos + pb in
    Ok (AxPlan pb pa (start_pos + pb) (if cs =? -1 then None else Some cs) step true).

(* _prepare_getitem_index for one axis of length n with slice(start, stop, step):
   (first, size) or the error raised *)
Definition getitem_axis (n : Z) (start : Z) (stop : option Z) (step : Z) : res (Z * Z) :=
  if (start <? - n) || (n <=? start) then Err VE
  else if match stop with Some s => (s <? - n - 1) || (n <? s) | None => false end then Err VE
  else if step =? 0 then Err VE
  else
    let '(f, l, s) := slice_indices (Some start) stop step n in
    match hd_size f l s with
    | None => Err IE
    | Some size => Ok (f, size)
    end.

(* after pad + crop, along one axis: (size, first-pb  = source coordinate of output voxel 0, step) *)
Record axres : Type := AxRes { r_size : Z; r_first : Z; r_step : Z }.
Definition apply_plan (do_crop : bool) (n : Z) (p : axplan) : res axres :=
  let n' := n + pl_pb p + pl_pa p in
  if do_crop then
    match getitem_axis n' (pl_start p) (pl_stop p) (pl_step p) with
    | Err k => Err k
    | Ok (f, size) => Ok (AxRes size (f - pl_pb p) (pl_step p))
    end
  else Ok (AxRes n' (- pl_pb p) 1).

Definition zrange (n : Z) : list Z := map Z.of_nat (seq 0 (Z.to_nat n)).
(* source coordinate of every output voxel along the axis, None = padding *)
Definition axis_map (n : Z) (r : axres) : list (option Z) :=
  map (fun k => let c := r_first r + k * r_step r in
                if (0 <=? c) && (c <? n) then Some c else None) (zrange (r_size r)).

Definition is_perm (a b c : ax) : bool :=
  negb (ax_eqb a b) && negb (ax_eqb a c) && negb (ax_eqb b c).

Record matched : Type := Matched {
  m_geom : ageom;
  m_perm : t3 ax;
  m_maps : t3 (list (option Z)) }.

(* stage 1: for every target axis the aligned source axis and the signed step *)
Definition steps_of (tol : Q) (g h : geom) : res (t3 ax * t3 Z) :=
  bind (axis_step tol g (sel (g_unit h) X0) (sel (g_spac h) X0)) (fun js0 =>
  bind (axis_step tol g (sel (g_unit h) X1) (sel (g_spac h) X1)) (fun js1 =>
  bind (axis_step tol g (sel (g_unit h) X2) (sel (g_spac h) X2)) (fun js2 =>
  Ok (T3 (fst js0) (fst js1) (fst js2), T3 (snd js0) (snd js1) (snd js2))))).

(* stage 2: per-axis plans on the permuted source (axis d is source axis perm d) *)
Definition start_ind (g h : geom) (perm : t3 ax) (d : ax) : Q :=
  let j := sel perm d in
  (dot (sel (g_unit g) j) (vsub (g_pos h) (g_pos g)) / sel (g_spac g) j)%Q.
Definition plan_for (tol : Q) (g h : geom) (perm : t3 ax) (steps : t3 Z) (d : ax) : res axplan :=
  axis_plan tol (start_ind g h perm d) (sel steps d) (sel (g_shape h) d) (sel (g_shape g) (sel perm d)).
Definition plans_of (tol : Q) (g h : geom) (perm : t3 ax) (steps : t3 Z) : res (t3 axplan) :=
  bind (plan_for tol g h perm steps X0) (fun q0 =>
  bind (plan_for tol g h perm steps X1) (fun q1 =>
  bind (plan_for tol g h perm steps X2) (fun q2 => Ok (T3 q0 q1 q2)))).

(* stage 3: pad (always harmless when all pads are 0) then crop if any axis requires it *)
Definition results_of (g : geom) (perm : t3 ax) (q : t3 axplan) : res (t3 axres) :=
  let requires_crop := pl_crop (p0 q) || pl_crop (p1 q) || pl_crop (p2 q) in
  let n d := sel (g_shape g) (sel perm d) in
  bind (apply_plan requires_crop (n X0) (p0 q)) (fun r0 =>
  bind (apply_plan requires_crop (n X1) (p1 q)) (fun r1 =>
  bind (apply_plan requires_crop (n X2) (p2 q)) (fun r2 => Ok (T3 r0 r1 r2)))).

(* resulting geometry and per-axis voxel maps *)
Definition assemble (g : geom) (perm : t3 ax) (rs : t3 axres) : matched :=
  let c d := col g (sel perm d) in
  Matched
    (AGeom (tab (fun d => r_size (sel rs d)))
           (tab (fun d => vscale (inject_Z (r_step (sel rs d))) (c d)))
           (vadd (g_pos g)
              (vadd (vscale (inject_Z (r_first (p0 rs))) (c X0))
              (vadd (vscale (inject_Z (r_first (p1 rs))) (c X1))
                    (vscale (inject_Z (r_first (p2 rs))) (c X2))))))
    perm
    (tab (fun d => axis_map (sel (g_shape g) (sel perm d)) (sel rs d))).

Definition match_geometry (tol : Q) (g h : geom) : res matched :=
  if for_conflict (g_for g) (g_for h) then Err RT
  else if negb (g_cs g =? g_cs h) then Err RT
  else
  bind (steps_of tol g h) (fun ps =>
  let perm := fst ps in
  let steps := snd ps in
  if negb (is_perm (p0 perm) (p1 perm) (p2 perm)) then Err VE
  else
  bind (plans_of tol g h perm steps) (fun q =>
  bind (results_of g perm q) (fun rs => Ok (assemble g perm rs)))).

(* voxel labels of the result: the source array holds 1 + row-major index,
   padding is 0 *)
Definition place (perm : t3 ax) (c0 c1 c2 : Z) : t3 Z :=
  tab (fun j => if ax_eqb (p0 perm) j then c0 else if ax_eqb (p1 perm) j then c1 else c2).
Definition label (src_shape : t3 Z) (perm : t3 ax) (c0 c1 c2 : option Z) : Z :=
  match c0, c1, c2 with
  | Some a, Some b, Some c =>
      let x := place perm a b c in
      1 + (p0 x * p1 src_shape + p1 x) * p2 src_shape + p2 x
  | _, _, _ => 0
  end.
Definition voxels (src_shape : t3 Z) (m : matched) : list Z :=
  flat_map (fun c0 => flat_map (fun c1 => map (fun c2 => label src_shape (m_perm m) c0 c1 c2)
                                              (p2 (m_maps m))) (p1 (m_maps m))) (p0 (m_maps m)).

(* ---- affines, inverse, volume-to-volume transform ---------------------------------- *)
Record aff : Type := Aff { f_c0 : vec3; f_c1 : vec3; f_c2 : vec3; f_t : vec3 }.
Definition geom_aff (g : geom) : aff := Aff (col g X0) (col g X1) (col g X2) (g_pos g).
Definition lin (A : aff) (i : vec3) : vec3 :=
  vadd (vadd (vscale (vx i) (f_c0 A)) (vscale (vy i) (f_c1 A))) (vscale (vz i) (f_c2 A)).
Definition phys (A : aff) (i : vec3) : vec3 := vadd (lin A i) (f_t A).
Definition cross (a b : vec3) : vec3 :=
  V3 (vy a * vz b - vz a * vy b) (vz a * vx b - vx a * vz b) (vx a * vy b - vy a * vx b).
Definition det (A : aff) : Q := dot (f_c0 A) (cross (f_c1 A) (f_c2 A)).
(* inverse through the adjugate: rows of the inverse are cross products / det *)
Definition inv_lin (B : aff) (y : vec3) : vec3 :=
  let d := det B in
  V3 (dot (cross (f_c1 B) (f_c2 B)) y / d)
     (dot (cross (f_c2 B) (f_c0 B)) y / d)
     (dot (cross (f_c0 B) (f_c1 B)) y / d).
Definition inv_apply (B : aff) (x : vec3) : vec3 := inv_lin B (vsub x (f_t B)).
(* T = inv(B) . A as an affine on indices *)
Definition v2v_aff (A B : aff) : aff :=
  Aff (inv_lin B (f_c0 A)) (inv_lin B (f_c1 A)) (inv_lin B (f_c2 A)) (inv_apply B (f_t A)).

Definition vround (v : vec3) : vec3 :=
  V3 (inject_Z (rne (vx v))) (inject_Z (rne (vy v))) (inject_Z (rne (vz v))).
Definition comp (v : vec3) (d : ax) : Q := match d with X0 => vx v | X1 => vy v | X2 => vz v end.

(* reductions as the code does them: min / max over the points, per axis *)
Definition qmin (a b : Q) : Q := if Qle_bool a b then a else b.
Definition qmax (a b : Q) : Q := if Qle_bool a b then b else a.
Definition min_over (d : ax) (x : vec3) (xs : list vec3) : Q :=
  fold_left (fun m p => qmin m (comp p d)) xs (comp x d).
Definition max_over (d : ax) (x : vec3) (xs : list vec3) : Q :=
  fold_left (fun m p => qmax m (comp p d)) xs (comp x d).
Definition half : Q := 1 # 2.
Definition axis_fails (shape : t3 Z) (d : ax) (x : vec3) (xs : list vec3) : bool :=
  Qltb (min_over d x xs) (- half) || Qltb (inject_Z (sel shape d) - half) (max_over d x xs).
(* None = reduction over an empty array (numpy raises ValueError) *)
Definition bounds_fail (shape : t3 Z) (pts : list vec3) : option bool :=
  match pts with
  | [] => None
  | x :: xs => Some (axis_fails shape X0 x xs || axis_fails shape X1 x xs || axis_fails shape X2 x xs)
  end.

(* VolumeToVolumeTransformer(volume_from=A, volume_to=B, round_output, check_bounds)(indices) *)
Definition v2v (A B : aff) (shapeB : t3 Z) (round check : bool) (pts : list vec3) : res (list vec3) :=
  if Qeq_bool (det B) 0 then Err VE (* numpy.linalg.LinAlgError, a ValueError *) else
  let T := v2v_aff A B in
  let out := map (phys T) pts in
  let out := if round then map vround out else out in
  if check then
    match bounds_fail shapeB out with
    | None => Err VE
    | Some true => Err VE
    | Some false => Ok out
    end
  else Ok out.

(* Volume.map_reference_to_indices(coordinates, round_output, check_bounds) *)
Definition ref2idx (B : aff) (shapeB : t3 Z) (round check : bool) (pts : list vec3) : res (list vec3) :=
  if Qeq_bool (det B) 0 then Err VE else
  let out := map (inv_apply B) pts in
  if check then
    match bounds_fail shapeB out with
    | None => Err VE
    | Some true => Err RT
    | Some false => Ok (if round then map vround out else out)
    end
  else Ok (if round then map vround out else out).

(* ---- boundary functions for the correspondence run ----------------------------------- *)
Definition vvec (v : vec3) : val := VL [VQ (vx v); VQ (vy v); VQ (vz v)].
Definition vshape (s : t3 Z) : val := VL [VZ (p0 s); VZ (p1 s); VZ (p2 s)].
Definition run_geq (tol : option Q) (g h : geom) : val := VB (geometry_equal tol g h).
Definition vageom (a : ageom) : val :=
  VL [vshape (a_shape a); vvec (p0 (a_cols a)); vvec (p1 (a_cols a)); vvec (p2 (a_cols a)); vvec (a_pos a)].
(* the trailing booleans are the implementation-side invariants observed by the harness
   (coordinate system / FoR kept, source untouched, same class, channels consistent) *)
Definition run_match (tol : Q) (g h : geom) : val :=
  vres (fun m => VL [vageom (m_geom m); vz_list (voxels (g_shape g) m);
                     VL [VB true; VB true; VB true; VB true; VB true]]) (match_geometry tol g h).
Definition run_match_g (tol : Q) (g h : geom) : val :=
  vres (fun m => VL [vageom (m_geom m); VL [VB true; VB true; VB true; VB true]]) (match_geometry tol g h).
Definition run_v2v (g h : geom) (round check : bool) (pts : list vec3) : val :=
  vres (fun l => VL (map vvec l)) (v2v (geom_aff g) (geom_aff h) (g_shape h) round check pts).
Definition run_v2v_affine (g h : geom) : val :=
  let T := v2v_aff (geom_aff g) (geom_aff h) in VL [vvec (f_c0 T); vvec (f_c1 T); vvec (f_c2 T); vvec (f_t T)].
Definition run_ref2idx (h : geom) (round check : bool) (pts : list vec3) : val :=
  vres (fun l => VL (map vvec l)) (ref2idx (geom_aff h) (g_shape h) round check pts).

(* ---- match_geometry with the pad options of Volume.pad (mode, constant_value) ---------------------- *)
(* the same pipeline as match_geometry, returning the permutation and the per-axis (size, first, step) *)
Definition match_rs (tol : Q) (g h : geom) : res (t3 ax * t3 axres) :=
  if for_conflict (g_for g) (g_for h) then Err RT
  else if negb (g_cs g =? g_cs h) then Err RT
  else
  bind (steps_of tol g h) (fun ps =>
  let perm := fst ps in
  let steps := snd ps in
  if negb (is_perm (p0 perm) (p1 perm) (p2 perm)) then Err VE
  else
  bind (plans_of tol g h perm steps) (fun q =>
  bind (results_of g perm q) (fun rs => Ok (perm, rs)))).

Inductive padmode : Type := PConst | PEdge | PMin | PMax | PMean | PMedian.
Definition nvox (s : t3 Z) : Z := p0 s * p1 s * p2 s.
(* value written into padded voxels; the source array holds the labels 1..N (N = number of voxels), so its
   minimum is 1, its maximum N and both its mean and its median (N+1)/2 *)
Definition pad_value (mode : padmode) (src_shape : t3 Z) (cval : Q) : Q :=
  match mode with
  | PConst => cval
  | PEdge => 0
  | PMin => 1
  | PMax => inject_Z (nvox src_shape)
  | PMean | PMedian => (inject_Z (nvox src_shape) + 1) / 2
  end.
(* numpy.pad(mode='edge'): a coordinate outside the source takes the nearest source voxel along that axis *)
Definition clampc (n c : Z) : Z := Z.max 0 (Z.min (n - 1) c).
Definition cell (mode : padmode) (n c : Z) : option Z :=
  if (0 <=? c) && (c <? n) then Some c
  else match mode with PEdge => Some (clampc n c) | _ => None end.
Definition axis_map_mode (mode : padmode) (n : Z) (r : axres) : list (option Z) :=
  map (fun k => cell mode n (r_first r + k * r_step r)) (zrange (r_size r)).
Definition label_q (src_shape : t3 Z) (perm : t3 ax) (pv : Q) (c0 c1 c2 : option Z) : Q :=
  match c0, c1, c2 with
  | Some a, Some b, Some c =>
      let x := place perm a b c in
      inject_Z (1 + (p0 x * p1 src_shape + p1 x) * p2 src_shape + p2 x)
  | _, _, _ => pv
  end.
Definition voxels_mode (mode : padmode) (cval : Q) (g : geom) (perm : t3 ax) (rs : t3 axres) : list Q :=
  let n d := sel (g_shape g) (sel perm d) in
  let pv := pad_value mode (g_shape g) cval in
  flat_map (fun c0 => flat_map (fun c1 => map (fun c2 => label_q (g_shape g) perm pv c0 c1 c2)
                                              (axis_map_mode mode (n X2) (p2 rs)))
                               (axis_map_mode mode (n X1) (p1 rs)))
           (axis_map_mode mode (n X0) (p0 rs)).

(* result geometry, voxel values, and the flag "result.geometry_equal(target, tol=T)" observed on the
   implementation (T is chosen by the harness above the bound of C09_match_sound_geometry_equal) *)
Definition run_match_mode (tol : Q) (mode : padmode) (cval : Q) (g h : geom) : val :=
  vres (fun pr => VL [vageom (m_geom (assemble g (fst pr) (snd pr)));
                      vq_list (voxels_mode mode cval g (fst pr) (snd pr)); VL [VB true]])
       (match_rs tol g h).

(* ---- map_indices_to_reference and the two routes from source indices to target indices ---------------- *)
Definition idx2ref (A : aff) (pts : list vec3) : list vec3 := map (phys A) pts.
Definition run_idx2ref (g : geom) (pts : list vec3) : val := VL (map vvec (idx2ref (geom_aff g) pts)).
(* [ VolumeToVolumeTransformer(g, h, round, check)(pts) ;
     h.map_reference_to_indices(g.map_indices_to_reference(pts), round, check) ] *)
Definition run_via_phys (g h : geom) (round check : bool) (pts : list vec3) : val :=
  VL [vres (fun l => VL (map vvec l)) (v2v (geom_aff g) (geom_aff h) (g_shape h) round check pts);
      vres (fun l => VL (map vvec l))
           (ref2idx (geom_aff h) (g_shape h) round check (idx2ref (geom_aff g) pts))].

(* ---- the dtype of the index array handed to VolumeToVolumeTransformer.__call__ ------------------------- *)
(* numpy dtypes of the caller's index array: signed / unsigned integers and floats of 8..64 bits.
     input_is_int = indices.dtype.kind == 'i'          (SIGNED integers only)
     round_output:  np.around(out).astype(indices.dtype if input_is_int else np.int64)
     otherwise:     out.astype(indices.dtype)            if indices.dtype.kind == 'f'  (rounding to the float type
                                                         is an oracle premise: the model keeps the exact value)
                    out (float64)                        for signed AND unsigned integer inputs (fix D112: unsigned
                                                         inputs used to be cast back to the unsigned type)
   the bounds check looks at the values AFTER the cast.  astype to a signed integer type of `bits` bits is two's
   complement wrap-around (numpy: C cast; exact for every value that fits) *)
Inductive width : Type := W8 | W16 | W32 | W64.
Definition wbits (w : width) : Z := match w with W8 => 8 | W16 => 16 | W32 => 32 | W64 => 64 end.
Inductive idtype : Type := DInt (w : width) | DUInt (w : width) | DFloat (w : width).
Definition input_is_int (dt : idtype) : bool := match dt with DInt _ => true | _ => false end.
Definition input_is_float (dt : idtype) : bool := match dt with DFloat _ => true | _ => false end.
Definition smin (w : width) : Z := - 2 ^ (wbits w - 1).
Definition smax (w : width) : Z := 2 ^ (wbits w - 1) - 1.
Definition wrap_s (w : width) (z : Z) : Z := (z + 2 ^ (wbits w - 1)) mod 2 ^ (wbits w) - 2 ^ (wbits w - 1).
Definition round_width (dt : idtype) : width := if input_is_int dt then match dt with DInt w => w | _ => W64 end else W64.
Definition vmapz (f : Q -> Z) (v : vec3) : vec3 := V3 (inject_Z (f (vx v))) (inject_Z (f (vy v))) (inject_Z (f (vz v))).
(* astype(float type) of a float64 value: exact in the model *)
Definition to_float (w : width) (v : vec3) : vec3 := v.
Definition cast_out (dt : idtype) (round : bool) (v : vec3) : vec3 :=
  if round then vmapz (fun q => wrap_s (round_width dt) (rne q)) v
  else if input_is_float dt then match dt with DFloat w => to_float w v | _ => v end
  else v.
Definition v2v_dt (dt : idtype) (A B : aff) (shapeB : t3 Z) (round check : bool) (pts : list vec3)
  : res (list vec3) :=
  if Qeq_bool (det B) 0 then Err VE else
  let T := v2v_aff A B in
  let out := map (cast_out dt round) (map (phys T) pts) in
  if check then
    match bounds_fail shapeB out with
    | None => Err VE
    | Some true => Err VE
    | Some false => Ok out
    end
  else Ok out.
(* dtype of the returned array as kind * 100 + bits (kind: 1 = signed, 2 = unsigned, 3 = float) *)
Definition dt_code (dt : idtype) : Z :=
  match dt with DInt w => 100 + wbits w | DUInt w => 200 + wbits w | DFloat w => 300 + wbits w end.
Definition out_dtype (dt : idtype) (round : bool) : idtype :=
  if round then DInt (round_width dt)
  else if input_is_float dt then dt else DFloat W64.
(* [ Ok [indices; dtype code of the returned array] | Err ;
     h.map_reference_to_indices(g.map_indices_to_reference(pts), round, check) ] *)
Definition run_v2v_dt (dt : idtype) (g h : geom) (round check : bool) (pts : list vec3) : val :=
  VL [vres (fun l => VL [VL (map vvec l); VZ (dt_code (out_dtype dt round))])
           (v2v_dt dt (geom_aff g) (geom_aff h) (g_shape h) round check pts);
      vres (fun l => VL (map vvec l))
           (ref2idx (geom_aff h) (g_shape h) round check (idx2ref (geom_aff g) pts))].

(* ---- index arrays of REDUCED floating point precision (float16 / float32) ------------------------------------
   np.ndarray.astype(float16 / float32) of a float64 value: round to nearest, ties to even, to the binary format
   with fbits significant bits.  The exponent range is not modelled (float16: overflow above 65504, subnormals
   below 2^-14 - the harness does not draw such images); float64 itself stays exact (oracle premise).
   The code (VolumeToVolumeTransformer.__call__) applies this cast ONLY in the un-rounded branch:
       if round_output:  np.around(out_float64).astype(int type)      <- the precision of the input never enters
       else:             out_float64.astype(indices.dtype)  if indices.dtype.kind == 'f'
   and runs the bounds check on the values it returns.  v2v_fp is v2v_dt with the cast modelled faithfully. *)
Definition pow2 (e : Z) : Q := (2 # 1) ^ e.
(* floor(log2 |q|) for q <> 0:  log2 num - log2 den  is that value or one more *)
Definition qlog2 (q : Q) : Z :=
  let l := Z.log2 (Z.abs (Qnum q)) - Z.log2 (Zpos (Qden q)) in
  if Qle_bool (pow2 l) (Qabs' q) then l else l - 1.
(* nearest number  m * 2^e  with |m| < 2^p  (p significant bits), ties to even *)
Definition fl_round (p : Z) (q : Q) : Q :=
  if Qeq_bool q 0 then 0 else
  let e := qlog2 q - (p - 1) in inject_Z (rne (q / pow2 e)) * pow2 e.
(* significant bits incl. the hidden one: IEEE binary16 / binary32 / binary64 (W8: no such numpy type; e4m3-like) *)
Definition fbits (w : width) : Z := match w with W8 => 4 | W16 => 11 | W32 => 24 | W64 => 53 end.
Definition fl_cast (w : width) (q : Q) : Q := match w with W64 => q | _ => fl_round (fbits w) q end.
Definition to_float_fp (w : width) (v : vec3) : vec3 := V3 (fl_cast w (vx v)) (fl_cast w (vy v)) (fl_cast w (vz v)).
Definition cast_out_fp (dt : idtype) (round : bool) (v : vec3) : vec3 :=
  if round then vmapz (fun q => wrap_s (round_width dt) (rne q)) v
  else match dt with DFloat w => to_float_fp w v | _ => v end.
Definition v2v_fp (dt : idtype) (A B : aff) (shapeB : t3 Z) (round check : bool) (pts : list vec3)
  : res (list vec3) :=
  if Qeq_bool (det B) 0 then Err VE else
  let T := v2v_aff A B in
  let out := map (cast_out_fp dt round) (map (phys T) pts) in
  if check then
    match bounds_fail shapeB out with
    | None => Err VE
    | Some true => Err VE
    | Some false => Ok out
    end
  else Ok out.
(* the regression class this guards against, as a function: cast to the input precision FIRST, then round *)
Definition cast_then_round (w : width) (q : Q) : Z := rne (fl_cast w q).
(* same boundary as run_v2v_dt, the float cast modelled *)
Definition run_v2v_fp (dt : idtype) (g h : geom) (round check : bool) (pts : list vec3) : val :=
  VL [vres (fun l => VL [VL (map vvec l); VZ (dt_code (out_dtype dt round))])
           (v2v_fp dt (geom_aff g) (geom_aff h) (g_shape h) round check pts);
      vres (fun l => VL (map vvec l))
           (ref2idx (geom_aff h) (g_shape h) round check (idx2ref (geom_aff g) pts))].
