(* C20 - proofs, part 1: soundness of the converter checker [ok] with respect
   to the tagged-heap semantics of C20_Model. *)
From Coq Require Import String ZArith List Bool Arith PeanoNat Lia.
From HD Require Import Base.Val C20_Model.
Import ListNotations.
Close Scope Z_scope.
Open Scope nat_scope.

(* ---------------------------------------------------------------- heap *)
Lemma get_lt h a o : get h a = Some o -> a < length h.
Proof. intros H. apply nth_error_Some. unfold get in H. congruence. Qed.

Lemma get_ge h a : length h <= a -> get h a = None.
Proof. intros H. apply nth_error_None. exact H. Qed.

Lemma reach_trans h a b c : reach h a b -> reach h b c -> reach h a c.
Proof. induction 1; intros; eauto using reach. Qed.

Lemma reach_new h a b : length h <= a -> reach h a b -> b = a.
Proof.
  intros Hn R. destruct R as [|a b c o Hg _ _]; [reflexivity|].
  rewrite (get_ge _ _ Hn) in Hg. discriminate.
Qed.

Lemma closedF_new h a : length h <= a -> closedF h a.
Proof.
  intros Hn b o R Hb. apply (reach_new _ _ _ Hn) in R. subst.
  rewrite (get_ge _ _ Hn) in Hb. discriminate.
Qed.

Lemma closedF_reach h a b : closedF h a -> reach h a b -> closedF h b.
Proof. intros C R c o R' Hc. exact (C c o (reach_trans _ _ _ _ R R') Hc). Qed.

Lemma closedF_rootF h a : closedF h a -> rootF h a.
Proof. intros C o Ho. exact (C a o (reach_refl _ _) Ho). Qed.

Lemma O_preserved_refl h : O_preserved h h.
Proof. intros a o Ha _. exact Ha. Qed.

Lemma O_preserved_trans h1 h2 h3 : O_preserved h1 h2 -> O_preserved h2 h3 -> O_preserved h1 h3.
Proof. intros P Q a o Ha Ho. apply Q; auto. Qed.

(* ------------------------------------------------------------ upd lemmas *)
Lemma upd_reach A M h h' : upd A M h h' -> forall a b, reach h' a b ->
  reach h a b \/ (exists k, A k /\ reach h k b) \/ length h <= b.
Proof.
  intros [Ulen Uframe Utag Unew Ukids] a b R.
  induction R as [a | a k c o' Hget Hin R IH].
  - left. constructor.
  - destruct IH as [IH | [IH | IH]]; [| right; left; exact IH | right; right; exact IH].
    destruct (Ukids a o' k Hget Hin) as [(o & Ho & Hk) | [HA | Hnew]].
    + left. eapply reach_step; eauto.
    + right. left. exists k. auto.
    + right. right. apply (reach_new _ _ _ Hnew) in IH. subst. exact Hnew.
Qed.

Lemma upd_tagF A M h h' b : upd A M h h' -> rootF h b -> rootF h' b.
Proof.
  intros [Ulen Uframe Utag Unew Ukids] HF o' Hb.
  destruct (get h b) as [o|] eqn:E.
  - rewrite (Utag b o o' E Hb). apply HF. exact E.
  - apply (Unew b o'); [|exact Hb]. apply nth_error_None. exact E.
Qed.

Lemma upd_closedF A M h h' a : upd A M h h' -> (forall k, A k -> closedF h k) ->
  closedF h a -> closedF h' a.
Proof.
  intros U HA C b o' R Hb.
  destruct (upd_reach _ _ _ _ U _ _ R) as [R0 | [(k & Ak & Rk) | Hn]].
  - refine (upd_tagF _ _ _ _ b U _ o' Hb). intros o Ho. exact (C b o R0 Ho).
  - refine (upd_tagF _ _ _ _ b U _ o' Hb). intros o Ho. exact (HA k Ak b o Rk Ho).
  - destruct U as [_ _ _ Unew _]. exact (Unew b o' Hn Hb).
Qed.

Lemma upd_O A M h h' : upd A M h h' -> (forall a, M a -> rootF h a) -> O_preserved h h'.
Proof.
  intros [Ulen Uframe Utag Unew Ukids] HM a o Ha Ho.
  destruct (Uframe a o Ha) as [H | H]; [exact H|].
  specialize (HM a H o Ha). congruence.
Qed.

Lemma upd_newF A M h h' r : upd A M h h' -> length h <= r -> rootF h' r.
Proof. intros [_ _ _ Unew _] Hr o Ho. exact (Unew r o Hr Ho). Qed.

(* -------------------------------------------------------- abstract values *)
Lemma aleb_refl a : aleb a a = true.
Proof. destruct a as [[] [] []]; reflexivity. Qed.

Lemma aleb_trans a b c : aleb a b = true -> aleb b c = true -> aleb a c = true.
Proof. destruct a as [[] [] []], b as [[] [] []], c as [[] [] []]; cbn; intros; congruence. Qed.

Lemma aleb_bot a : aleb bot a = true.
Proof. reflexivity. Qed.

Lemma aleb_meet_l a b : aleb (ameet a b) a = true.
Proof. destruct a as [[] [] []], b as [[] [] []]; reflexivity. Qed.

Lemma aleb_meet_r a b : aleb (ameet a b) b = true.
Proof. destruct a as [[] [] []], b as [[] [] []]; reflexivity. Qed.

Lemma aleb_unclean a : aleb (unclean a) a = true.
Proof. destruct a as [[] [] []]; reflexivity. Qed.

Lemma lookup_map_keys (g : nat -> aval) (l : aenv) v :
  lookup (map (fun p : nat * aval => (fst p, g (fst p))) l) v =
  if existsb (fun p : nat * aval => Nat.eqb v (fst p)) l then g v else bot.
Proof.
  induction l as [|[w a] l IH]; [reflexivity|].
  cbn [map lookup fst existsb]. destruct (Nat.eqb v w) eqn:E.
  - apply Nat.eqb_eq in E. subst. reflexivity.
  - cbn [orb]. exact IH.
Qed.

Lemma lookup_taint ae v : lookup (taint ae) v = unclean (lookup ae v).
Proof.
  induction ae as [|[w a] l IH]; [reflexivity|].
  cbn [taint map lookup fst snd]. destruct (Nat.eqb v w); [reflexivity|]. exact IH.
Qed.

Lemma meet_leb_l a1 a2 v : aleb (lookup (meet a1 a2) v) (lookup a1 v) = true.
Proof.
  unfold meet. rewrite (lookup_map_keys (fun k => ameet (lookup a1 k) (lookup a2 k))).
  destruct (existsb _ a1); [apply aleb_meet_l | apply aleb_bot].
Qed.

Lemma meet_leb_r a1 a2 v : aleb (lookup (meet a1 a2) v) (lookup a2 v) = true.
Proof.
  unfold meet. rewrite (lookup_map_keys (fun k => ameet (lookup a1 k) (lookup a2 k))).
  destruct (existsb _ a1); [apply aleb_meet_r | apply aleb_bot].
Qed.

Lemma lookup_in ae v : (exists a, In (v, a) ae) \/ lookup ae v = bot.
Proof.
  induction ae as [|[w a] l IH]; [right; reflexivity|].
  cbn [lookup]. destruct (Nat.eqb v w) eqn:E.
  - apply Nat.eqb_eq in E. subst. left. exists a. left. reflexivity.
  - destruct IH as [(b & Hb) | IH]; [left; exists b; right; exact Hb | right; exact IH].
Qed.

Lemma aenv_leb_spec a1 a2 : aenv_leb a1 a2 = true ->
  forall v, aleb (lookup a1 v) (lookup a2 v) = true.
Proof.
  intros H v. destruct (lookup_in a1 v) as [(a & Ha) | Hb].
  - unfold aenv_leb in H. rewrite forallb_forall in H. exact (H (v, a) Ha).
  - rewrite Hb. apply aleb_bot.
Qed.

Lemma star_iter_spec f n : forall ae ae', star_iter f n ae = Some ae' ->
  (forall v, aleb (lookup ae' v) (lookup ae v) = true) /\
  exists a1, f ae' = Some a1 /\ aenv_leb ae' a1 = true.
Proof.
  induction n as [|n IH]; intros ae ae' H; cbn [star_iter] in H;
    destruct (f ae) as [a1|] eqn:Ef; try discriminate;
    destruct (aenv_leb ae a1) eqn:El; try discriminate.
  - inversion H; subst. split; [intros; apply aleb_refl | eauto].
  - inversion H; subst. split; [intros; apply aleb_refl | eauto].
  - destruct (IH _ _ H) as [Hle Hfix]. split; [|exact Hfix].
    intros v. eapply aleb_trans; [apply Hle | apply meet_leb_l].
Qed.

Lemma star_iter_fix f n ae a1 : f ae = Some a1 -> aenv_leb ae a1 = true ->
  star_iter f n ae = Some ae.
Proof. intros Hf Hl. destruct n; cbn [star_iter]; rewrite Hf, Hl; reflexivity. Qed.

(* ------------------------------------------------------ abstraction relation *)
Definition sound_at (a0 : nat) (h : heap) (e : env) (ae : aenv) : Prop :=
  forall v,
    (afresh (lookup ae v) = true -> rootF h (e v)) /\
    (aclean (lookup ae v) = true -> closedF h (e v)) /\
    (asame (lookup ae v) = true -> e v = a0).

Lemma sound_weaken a0 h e ae ae' :
  (forall v, aleb (lookup ae v) (lookup ae' v) = true) -> sound_at a0 h e ae' -> sound_at a0 h e ae.
Proof.
  intros L S v. specialize (L v). destruct (S v) as (S1 & S2 & S3).
  destruct (lookup ae v) as [[] [] []], (lookup ae' v) as [[] [] []]; cbn in *;
    try discriminate; repeat split; intros; try discriminate; auto.
Qed.

Lemma sound_taint a0 h e ae : sound_at a0 h e ae -> sound_at a0 h e (taint ae).
Proof.
  apply sound_weaken. intros v. rewrite lookup_taint. apply aleb_unclean.
Qed.

Lemma sound_aset a0 h e ae x r a :
  sound_at a0 h e ae ->
  (afresh a = true -> rootF h r) -> (aclean a = true -> closedF h r) -> (asame a = true -> r = a0) ->
  sound_at a0 h (upd_env e x r) (aset ae x a).
Proof.
  intros S H1 H2 H3 v. unfold upd_env, aset. cbn [lookup].
  destruct (Nat.eqb v x); [auto | apply S].
Qed.

Lemma sound_upd_clean a0 A M h h' e ae :
  upd A M h h' -> (forall k, A k -> closedF h k) -> sound_at a0 h e ae -> sound_at a0 h' e ae.
Proof.
  intros U HA S v. destruct (S v) as (S1 & S2 & S3). repeat split; intros.
  - eapply upd_tagF; eauto.
  - eapply upd_closedF; eauto.
  - auto.
Qed.

Lemma sound_upd_taint a0 A M h h' e ae :
  upd A M h h' -> sound_at a0 h e ae -> sound_at a0 h' e (taint ae).
Proof.
  intros U S v. rewrite lookup_taint. destruct (S v) as (S1 & S2 & S3).
  destruct (lookup ae v) as [f c s]. cbn in *. repeat split; intros; try discriminate.
  - eapply upd_tagF; eauto.
  - auto.
Qed.

Lemma allclean_closed a0 h e ae ys : sound_at a0 h e ae -> allclean ae ys = true ->
  forall k, addrs e ys k -> closedF h k.
Proof.
  intros S H k (y & Hy & ->). unfold allclean in H. rewrite forallb_forall in H.
  apply (S y). apply H. exact Hy.
Qed.

Lemma sound_upd_link a0 M h h' e ae ys :
  upd (addrs e ys) M h h' -> sound_at a0 h e ae -> sound_at a0 h' e (link ae ys).
Proof.
  intros U S. unfold link. destruct (allclean ae ys) eqn:E.
  - eapply sound_upd_clean; eauto. eapply allclean_closed; eauto.
  - eapply sound_upd_taint; eauto.
Qed.

Lemma nobody_closed h : forall k, nobody k -> closedF h k.
Proof. intros k []. Qed.

Lemma guard_true cp b : guard cp b = true -> cp = true -> b = true.
Proof. intros H ->. exact H. Qed.

(* --------------------------------------------------------- primitive steps *)
Lemma prim_sound ms cp a0 e h s e' h' : prim ms cp e h s e' h' ->
  forall ae ae', sound_at a0 h e ae -> check ms cp s ae = Some ae' ->
  (cp = true -> O_preserved h h') /\ sound_at a0 h' e' ae'.
Proof.
  intros P ae ae' S C.
  destruct P as [ | | x y | x y b R | x ys h' r U Hr | x y h' r U Hr | x h' U | x ys h' U
                | x f y c cl h' r K U Hr | x f y c h' K U | x f y c h' r K U Hr ]; cbn [check] in C.
  - inversion C; subst. split; [intros; apply O_preserved_refl | exact S].
  - inversion C; subst. split; [intros; apply O_preserved_refl | exact S].
  - inversion C; subst. split; [intros; apply O_preserved_refl |].
    apply sound_aset; [exact S | apply (S y) | apply (S y) | apply (S y)].
  - inversion C; subst. split; [intros; apply O_preserved_refl |].
    apply sound_aset; [exact S | | | discriminate]; cbn; intros Hc.
    + apply closedF_rootF. eapply closedF_reach; [apply (S y); exact Hc | exact R].
    + eapply closedF_reach; [apply (S y); exact Hc | exact R].
  - inversion C; subst. split.
    + intros _. eapply upd_O; [exact U | intros a []].
    + apply sound_aset; [eapply sound_upd_link; eauto | | | discriminate]; cbn.
      * intros _. eapply upd_newF; eauto.
      * intros Hc. eapply upd_closedF; [exact U | | apply closedF_new; exact Hr].
        eapply allclean_closed; eauto.
  - inversion C; subst. split.
    + intros _. eapply upd_O; [exact U | intros a []].
    + apply sound_aset; [eapply sound_upd_clean; eauto using nobody_closed | | | discriminate]; cbn.
      * intros _. eapply upd_newF; eauto.
      * intros _. eapply upd_closedF; [exact U | apply nobody_closed | apply closedF_new; exact Hr].
  - destruct (guard cp (afresh (lookup ae x))) eqn:G; [|discriminate]. inversion C; subst. split.
    + intros Hcp. eapply upd_O; [exact U |]. intros a ->. apply (S x). eapply guard_true; eauto.
    + eapply sound_upd_clean; eauto using nobody_closed.
  - destruct (guard cp (afresh (lookup ae x))) eqn:G; [|discriminate]. inversion C; subst. split.
    + intros Hcp. eapply upd_O; [exact U |]. intros a ->. apply (S x). eapply guard_true; eauto.
    + eapply sound_upd_link; eauto.
  - rewrite K in C. inversion C; subst. clear C. split.
    + intros _. eapply upd_O; [exact U | intros a []].
    + destruct (cl || aclean (lookup ae y)) eqn:Ec.
      * assert (HA : forall k, cl = false /\ reach h (e y) k -> closedF h k).
        { intros k (Hcl & Rk). subst cl. cbn in Ec.
          eapply closedF_reach; [apply (S y); exact Ec | exact Rk]. }
        apply sound_aset; [eapply sound_upd_clean; eauto | | | discriminate]; cbn.
        -- intros _. eapply upd_newF; eauto.
        -- intros _. eapply upd_closedF; [exact U | exact HA | apply closedF_new; exact Hr].
      * apply sound_aset; [eapply sound_upd_taint; eauto | | discriminate | discriminate]; cbn.
        intros _. eapply upd_newF; eauto.
  - rewrite K in C. destruct (guard cp (aclean (lookup ae y))) eqn:G; [|discriminate].
    inversion C; subst. clear C. split.
    + intros Hcp. eapply upd_O; [exact U |]. intros a Ra.
      apply closedF_rootF. eapply closedF_reach; [|exact Ra]. apply (S y). eapply guard_true; eauto.
    + assert (S' : sound_at a0 h' e (link ae [y])).
      { unfold link. destruct (allclean ae [y]) eqn:E.
        - eapply sound_upd_clean; [exact U | | exact S].
          intros k Rk. eapply closedF_reach; [|exact Rk]. apply (S y).
          cbn in E. rewrite andb_true_r in E. exact E.
        - eapply sound_upd_taint; eauto. }
      apply sound_aset; [exact S' | apply (S' y) | apply (S' y) | apply (S' y)].
  - rewrite K in C. destruct (guard cp (aclean (lookup ae y))) eqn:G; [|discriminate].
    inversion C; subst. clear C. split.
    + intros Hcp. eapply upd_O; [exact U |]. intros a Ra.
      apply closedF_rootF. eapply closedF_reach; [|exact Ra]. apply (S y). eapply guard_true; eauto.
    + assert (S' : sound_at a0 h' e (link ae [y])).
      { unfold link. destruct (allclean ae [y]) eqn:E.
        - eapply sound_upd_clean; [exact U | | exact S].
          intros k Rk. eapply closedF_reach; [|exact Rk]. apply (S y).
          cbn in E. rewrite andb_true_r in E. exact E.
        - eapply sound_upd_taint; eauto. }
      apply sound_aset; [exact S' | | | discriminate]; cbn.
      * intros _. eapply upd_newF; eauto.
      * intros Hc. eapply upd_closedF; [exact U | | apply closedF_new; exact Hr].
        intros k Rk. eapply closedF_reach; [|exact Rk]. apply (S y). exact Hc.
Qed.

(* -------------------------------------------------------------- big step *)
Lemma exec_sound ms cp a0 s e h r e' h' : exec ms cp s e h r e' h' ->
  forall ae ae', sound_at a0 h e ae -> check ms cp s ae = Some ae' ->
  (cp = true -> O_preserved h h') /\ (r = true -> sound_at a0 h' e' ae').
Proof.
  induction 1 as [ s e h e' h' P | s e h e' h' P
                 | s1 s2 e h e1 h1 r e2 h2 E1 IH1 E2 IH2 | s1 s2 e h e1 h1 E1 IH1
                 | s1 s2 e h r e' h' E IH
                 | s1 s2 e h r e' h' E IH | s1 s2 e h r e' h' E IH
                 | s e h
                 | s e h e1 h1 r e2 h2 E1 IH1 E2 IH2 | s e h e1 h1 E1 IH1 ];
    intros ae ae' S C.
  - destruct (prim_sound _ _ a0 _ _ _ _ _ P _ _ S C). split; auto.
  - destruct (prim_sound _ _ a0 _ _ _ _ _ P _ _ S C). split; auto; discriminate.
  - cbn [check] in C. destruct (check ms cp s1 ae) as [a1|] eqn:C1; [|discriminate].
    destruct (IH1 _ _ S C1) as [O1 S1]. destruct (IH2 _ _ (S1 eq_refl) C) as [O2 S2].
    split; [|exact S2]. intros Hcp. eapply O_preserved_trans; eauto.
  - cbn [check] in C. destruct (check ms cp s1 ae) as [a1|] eqn:C1; [|discriminate].
    destruct (IH1 _ _ S C1) as [O1 _]. split; [exact O1 | discriminate].
  - cbn [check] in C. apply (IH _ _ S). destruct cp; exact C.
  - cbn [check] in C. destruct (check ms cp s1 ae) as [a1|] eqn:C1; [|discriminate].
    destruct (check ms cp s2 ae) as [a2|] eqn:C2; [|discriminate]. inversion C; subst.
    destruct (IH _ _ S C1) as [O1 S1]. split; [exact O1|]. intros Hr.
    eapply sound_weaken; [|exact (S1 Hr)]. intros v. apply meet_leb_l.
  - cbn [check] in C. destruct (check ms cp s1 ae) as [a1|] eqn:C1; [|discriminate].
    destruct (check ms cp s2 ae) as [a2|] eqn:C2; [|discriminate]. inversion C; subst.
    destruct (IH _ _ S C2) as [O1 S1]. split; [exact O1|]. intros Hr.
    eapply sound_weaken; [|exact (S1 Hr)]. intros v. apply meet_leb_r.
  - cbn [check] in C. destruct (star_iter_spec _ _ _ _ C) as [Hle _].
    split; [intros; apply O_preserved_refl|]. intros _. eapply sound_weaken; eauto.
  - cbn [check] in C. destruct (star_iter_spec _ _ _ _ C) as [Hle (a1 & Hf & Hl)].
    assert (S' : sound_at a0 h e ae') by (eapply sound_weaken; eauto).
    destruct (IH1 _ _ S' Hf) as [O1 S1].
    assert (S1' : sound_at a0 h1 e1 ae').
    { eapply sound_weaken; [apply aenv_leb_spec; exact Hl | exact (S1 eq_refl)]. }
    assert (C' : check ms cp (Star s) ae' = Some ae').
    { cbn [check]. eapply star_iter_fix; eauto. }
    destruct (IH2 _ _ S1' C') as [O2 S2].
    split; [|exact S2]. intros Hcp. eapply O_preserved_trans; eauto.
  - cbn [check] in C. destruct (star_iter_spec _ _ _ _ C) as [Hle (a1 & Hf & Hl)].
    assert (S' : sound_at a0 h e ae') by (eapply sound_weaken; eauto).
    destruct (IH1 _ _ S' Hf) as [O1 _]. split; [exact O1 | discriminate].
Qed.

Lemma sound_init e h : sound_at (e 0) h e init_ae.
Proof.
  intros v. unfold init_ae. cbn [lookup]. destruct (Nat.eqb v 0) eqn:E; cbn.
  - apply Nat.eqb_eq in E. subst. repeat split; intros; try discriminate.
  - repeat split; intros; discriminate.
Qed.

(* ------------------------------------------------------------ ok_sound *)
(* running an accepted converter with copy = true: no caller-owned object
   changes (neither on normal return nor when an exception escapes), the
   result is converter-allocated, and - when the summary says so - reaches no
   caller-owned object *)
Theorem ok_copy_sound ms sm c : ok_copy ms sm c = true ->
  forall e h r e' h', exec ms true (cbody c) e h r e' h' ->
  O_preserved h h' /\
  (r = true -> rootF h' (e' (cret c)) /\ (sclean sm = true -> closedF h' (e' (cret c)))).
Proof.
  unfold ok_copy. intros Hok e h r e' h' E.
  destruct (check ms true (cbody c) init_ae) as [ae|] eqn:C; [|discriminate].
  apply andb_true_iff in Hok. destruct Hok as [Hf Hc].
  destruct (exec_sound _ _ (e 0) _ _ _ _ _ _ E _ _ (sound_init e h) C) as [O S].
  split; [apply O; reflexivity|]. intros Hr. specialize (S Hr (cret c)).
  destruct S as (S1 & S2 & _). split; [apply S1; exact Hf|].
  intros Hs. apply S2. rewrite Hs in Hc. exact Hc.
Qed.

(* running it with copy = false returns the very object that was passed *)
Theorem ok_same_sound ms c : ok_same ms c = true ->
  forall e h e' h', exec ms false (cbody c) e h true e' h' -> e' (cret c) = e 0.
Proof.
  unfold ok_same. intros Hok e h e' h' E.
  destruct (check ms false (cbody c) init_ae) as [ae|] eqn:C; [|discriminate].
  destruct (exec_sound _ _ (e 0) _ _ _ _ _ _ E _ _ (sound_init e h) C) as [_ S].
  apply (S eq_refl (cret c)). exact Hok.
Qed.

Theorem ok_sound ms c sm : ms (cname c) = Some sm -> ok ms c = true ->
  (smode sm <> MInPlace ->
   forall e h r e' h', exec ms true (cbody c) e h r e' h' ->
   O_preserved h h' /\
   (r = true -> rootF h' (e' (cret c)) /\ (sclean sm = true -> closedF h' (e' (cret c))))) /\
  (smode sm = MStd \/ smode sm = MInPlace ->
   forall e h e' h', exec ms false (cbody c) e h true e' h' -> e' (cret c) = e 0).
Proof.
  intros Hm Hok. unfold ok in Hok. rewrite Hm in Hok. split.
  - intros Hne. apply ok_copy_sound.
    destruct (smode sm); try (apply andb_true_iff in Hok; tauto); auto; congruence.
  - intros Hs. apply ok_same_sound.
    destruct (smode sm); try (apply andb_true_iff in Hok; tauto); auto;
      try (destruct Hs; discriminate).
Qed.

(* reading for a heap that consists of the caller's objects only *)
Definition all_O (h : heap) : Prop := forall a o, get h a = Some o -> otag o = TO.

Corollary ok_copy_caller_view ms sm c : ok_copy ms sm c = true ->
  forall e h r e' h', all_O h -> exec ms true (cbody c) e h r e' h' ->
  (forall a o, get h a = Some o -> get h' a = Some o) /\
  (r = true -> forall o, get h' (e' (cret c)) = Some o -> length h <= e' (cret c)).
Proof.
  intros Hok e h r e' h' HO E.
  destruct (ok_copy_sound _ _ _ Hok _ _ _ _ _ E) as [P R]. split.
  - intros a o Ha. apply P; [exact Ha | exact (HO a o Ha)].
  - intros Hr o Ho. destruct (R Hr) as [RF _].
    destruct (le_lt_dec (length h) (e' (cret c))) as [|Hlt]; [assumption|].
    destruct (get h (e' (cret c))) as [o0|] eqn:E0.
    + pose proof (P _ _ E0 (HO _ _ E0)) as E1. rewrite E1 in Ho. inversion Ho; subst.
      pose proof (RF _ E1) as T. rewrite (HO _ _ E0) in T. discriminate.
    + apply nth_error_None in E0. lia.
Qed.
