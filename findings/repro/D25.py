# D25: Segmentation() must not add SpacingBetweenSlices to the caller's pixel_measures
import sys
sys.path.insert(0, '/root/scratch/repro')
from _fixA_util import setup
np, pydicom, hd, mk, desc, seg = setup(sys.argv[1])
src = [mk(i, 3, 3) for i in range(3)]
arr = np.zeros((3, 3, 3), np.uint8); arr[:, 1, 1] = 1
pm = hd.PixelMeasuresSequence(pixel_spacing=[1.0, 1.0], slice_thickness=2.5)
before = pm[0].to_json()
s = seg(src, arr, 'BINARY', [1], pixel_measures=pm)
stored = s.SharedFunctionalGroupsSequence[0].PixelMeasuresSequence[0]
if pm[0].to_json() != before:
    print('D25: caller pixel_measures modified; now has SpacingBetweenSlices =',
          pm[0].get('SpacingBetweenSlices')); sys.exit(1)
if float(stored.get('SpacingBetweenSlices', 0)) != 2.5:
    print('D25: segmentation lacks inferred SpacingBetweenSlices'); sys.exit(1)
sys.exit(0)
