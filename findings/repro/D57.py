# D57: TcoordContentItem.value returns ReferencedDateTime elements as plain str after a file
# round trip (DateTimeContentItem.value converts with DT()).
import sys, warnings, datetime, io
warnings.filterwarnings('ignore')
sys.path.insert(0, sys.argv[1] + '/src')
import pydicom
from pydicom.dataset import Dataset, FileMetaDataset
from pydicom.sr.codedict import codes
from highdicom.sr import TcoordContentItem
bad = []
for times in ([datetime.datetime(2020, 1, 2, 3, 4, 5)],
              [datetime.datetime(2020, 1, 2, 3, 4, 5), datetime.datetime(2021, 6, 7, 8, 9, 10, 500)]):
    item = TcoordContentItem(name=codes.DCM.ReferencedTimeOffsets if False else codes.DCM.Time,
                             temporal_range_type='POINT' if len(times) == 1 else 'MULTIPOINT',
                             referenced_date_time=times, relationship_type='CONTAINS')
    ds = Dataset(); ds.update(item)
    ds.file_meta = FileMetaDataset(); ds.file_meta.TransferSyntaxUID = pydicom.uid.ExplicitVRLittleEndian
    buf = io.BytesIO(); pydicom.dcmwrite(buf, ds, enforce_file_format=False); buf.seek(0)
    back = TcoordContentItem.from_dataset(pydicom.dcmread(buf, force=True))
    val = back.value
    if not all(isinstance(v, datetime.datetime) for v in val):
        bad.append(f'value after round trip has types {[type(v).__name__ for v in val]}: {list(val)}')
    elif list(val) != times:
        bad.append(f'value {list(val)} != {times}')
    if list(item.value) != times:
        bad.append('in-memory value changed')
for b in bad: print('D57 present:', b)
sys.exit(1 if bad else 0)
