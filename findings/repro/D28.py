import sys, itertools
sys.path.insert(0, sys.argv[1] + '/src')
import numpy as np
from highdicom.spatial import _transform_affine_to_convention

OPP = {'L': 'R', 'R': 'L', 'A': 'P', 'P': 'A', 'H': 'F', 'F': 'H'}
convs = [
    ''.join(c) for axes in itertools.permutations(['LR', 'AP', 'HF'])
    for c in itertools.product(*axes)
]
rng = np.random.RandomState(0)
A = np.eye(4)
A[:3, :] = rng.uniform(-5, 5, size=(3, 4))
fail = []
for frm in ('LPH', 'RAH', 'FPL'):
    for to in convs:
        # Expected: coordinate k of "to" is +/- coordinate j of "from"
        M = np.zeros((4, 4))
        M[3, 3] = 1.0
        for k, d in enumerate(to):
            if d in frm:
                M[k, frm.index(d)] = 1.0
            else:
                M[k, frm.index(OPP[d])] = -1.0
        try:
            got = _transform_affine_to_convention(A, (3, 4, 5), frm, to)
        except Exception as e:
            fail.append(f'{frm}->{to}: {type(e).__name__}: {e}')
            continue
        if not np.allclose(got, M @ A):
            fail.append(f'{frm}->{to}: wrong affine')
if fail:
    print(f'D28: {len(fail)} of {3 * len(convs)} conversions fail, e.g.', '; '.join(fail[:4]))
    sys.exit(1)
sys.exit(0)
