# D48: Segmentation pixel getters, FRACTIONAL + rescale_fractional=False + narrow dtype: capacity
# check used max value 1 although raw stored values reach MaximumFractionalValue -> astype wraps
# (200 -> -56 for int8) instead of ValueError.
import sys, warnings
warnings.filterwarnings('ignore')
sys.path.insert(0, sys.argv[1] + '/src'); sys.path.insert(0, '/verif/harness')
import stub_modules; stub_modules.install()
import numpy as np, synth
bad = []
src = synth.ct_series(2, 2, 4)
a = np.zeros((2, 2, 4, 1), np.float32); a[0, 0, 0, 0] = 200 / 255; a[1, 1, 1, 0] = 1.0
seg = synth.make_seg(src, a, 'FRACTIONAL', [1], max_fractional_value=255)
uids = [s.SOPInstanceUID for s in src]
for dt in (np.int8, np.bool_):
    try:
        out = seg.get_pixels_by_source_instance(uids, rescale_fractional=False, dtype=dt)
        if out[0, 0, 0, 0] != 200 or out[1, 1, 1, 0] != 255:
            bad.append(f'dtype {np.dtype(dt)}: raw 200, 255 returned as {out[0,0,0,0]!r}, {out[1,1,1,0]!r}')
    except ValueError as e:
        pass
# still works where it fits / when rescaled
out = seg.get_pixels_by_source_instance(uids, rescale_fractional=False, dtype=np.int16)
assert out[0, 0, 0, 0] == 200 and out[1, 1, 1, 0] == 255, out
out = seg.get_pixels_by_source_instance(uids, rescale_fractional=False)
assert out.dtype == np.uint8 and out[0, 0, 0, 0] == 200
out = seg.get_pixels_by_source_instance(uids, rescale_fractional=True, dtype=np.float16)
assert abs(float(out[0, 0, 0, 0]) - 200 / 255) < 1e-3
for b in bad: print('D48 present:', b)
sys.exit(1 if bad else 0)
