# D50: ImageFileReader.read_frame_raw (io.py ~l.700) only refuses index > number_of_frames:
# negative indices wrap (read_frame(-1) returns the last frame) and index == n raises IndexError.
import sys, warnings
warnings.filterwarnings('ignore')
sys.path.insert(0, sys.argv[1] + '/src')
from highdicom.io import ImageFileReader
bad = []
with ImageFileReader(sys.argv[1] + '/data/test_files/ct_image.dcm') as r:
    n = r.number_of_frames
    for idx in (-1, -n, n, n + 1):
        try:
            r.read_frame(idx)
            bad.append(f'read_frame({idx}) with {n} frame(s) returned a frame')
        except ValueError:
            pass
        except Exception as e:
            bad.append(f'read_frame({idx}) raised {type(e).__name__} instead of ValueError')
    r.read_frame(n - 1)
for b in bad: print('D50 present:', b)
sys.exit(1 if bad else 0)
