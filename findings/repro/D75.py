# D75: with no rescale/LUT present, get_frame(dtype=<integer dtype narrower than the stored
# values>) wrapped silently in the final astype (uint16 [0,7,300,406] as uint8 -> [0,7,44,150]);
# the same request with a RescaleIntercept is refused.
import sys
sys.path.insert(0, '/root/scratch/repro')
import _fixF_img as F
F.setup(sys.argv[1])
import numpy as np
bad = []
def check(name, f, want):
    try:
        got = f().ravel().tolist()
        if got != want:
            bad.append(f'{name}: returned {got}, stored values are {want}')
    except ValueError:
        pass  # refusal is acceptable
    except Exception as e:
        bad.append(f'{name}: raises {type(e).__name__}: {e}')
def must(name, f, want):
    try:
        got = f().ravel().tolist()
        if got != want: bad.append(f'{name}: returned {got}, expected {want}')
    except Exception as e:
        bad.append(f'{name}: raises {type(e).__name__}: {e}')
im = F.make(sys.argv[1], np.array([[0, 7, 300, 406]]))
check('uint16 stored, dtype=uint8', lambda: im.get_frame(1, dtype=np.uint8), [0, 7, 300, 406])
check('uint16 stored, dtype=int8', lambda: im.get_frame(1, dtype=np.int8), [0, 7, 300, 406])
must('uint16 stored, dtype=int16', lambda: im.get_frame(1, dtype=np.int16), [0, 7, 300, 406])
must('uint16 stored, dtype=uint32', lambda: im.get_frame(1, dtype=np.uint32), [0, 7, 300, 406])
must('uint16 stored, dtype=float32', lambda: im.get_frame(1, dtype=np.float32), [0, 7, 300, 406])
im = F.make(sys.argv[1], np.array([[0, 7, 200, 255]]))
must('small uint16 values, dtype=uint8', lambda: im.get_frame(1, dtype=np.uint8), [0, 7, 200, 255])
check('uint16 values > 127, dtype=int8', lambda: im.get_frame(1, dtype=np.int8), [0, 7, 200, 255])
im = F.make(sys.argv[1], np.array([[-5, 7, 100, 127]]), signed=True)
check('negative int16 stored, dtype=uint16', lambda: im.get_frame(1, dtype=np.uint16), [-5, 7, 100, 127])
must('int16 stored, dtype=int8', lambda: im.get_frame(1, dtype=np.int8), [-5, 7, 100, 127])
for b in bad: print('D75 present:', b)
sys.exit(1 if bad else 0)
