# D49: _check_numpy_value_representation only compared against finfo.max for float dtypes, so a
# LABELMAP with segment 2049 read with combine_segments=True, dtype=float16 came back as 2048.0.
import sys, warnings
warnings.filterwarnings('ignore')
sys.path.insert(0, sys.argv[1] + '/src'); sys.path.insert(0, '/verif/harness')
import stub_modules; stub_modules.install()
import numpy as np, synth
from highdicom.seg.sop import _check_numpy_value_representation as chk
bad = []
for mv, dt, ok in ((2048, np.float16, True), (2049, np.float16, False), (2**24, np.float32, True),
                   (2**24 + 1, np.float32, False), (1, np.float16, True), (70000, np.float16, False),
                   (2**53 + 1, np.float64, False), (255, np.uint8, True), (256, np.uint8, False)):
    try:
        chk(mv, dt); got = True
    except ValueError:
        got = False
    if got != ok:
        bad.append(f'check({mv}, {np.dtype(dt)}) {"accepted" if got else "refused"}')
src = synth.ct_series(1, 2, 4)
a = np.zeros((1, 2, 4), np.uint16); a[0, 0, 0] = 2049; a[0, 1, 1] = 3
seg = synth.make_seg(src, a, 'LABELMAP', [3, 2049])
uids = [s.SOPInstanceUID for s in src]
try:
    out = seg.get_pixels_by_source_instance(uids, combine_segments=True, dtype=np.float16)
    if float(out[0, 0, 0]) != 2049:
        bad.append(f'segment 2049 returned as {out[0, 0, 0]!r} with dtype float16')
except ValueError:
    pass
out = seg.get_pixels_by_source_instance(uids, combine_segments=True, dtype=np.float32)
assert float(out[0, 0, 0]) == 2049 and float(out[0, 1, 1]) == 3
for b in bad: print('D49 present:', b)
sys.exit(1 if bad else 0)
