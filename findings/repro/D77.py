# D77: LUT.lut_data of a ONE-entry 16-bit table read back from a file: pydicom returns the
# 2-byte LUTData as a python int, np.array(int) is 0-d and len() raised TypeError.
import sys, io, warnings
warnings.filterwarnings('ignore')
sys.path.insert(0, sys.argv[1] + '/src'); sys.path.insert(0, '/verif/harness')
import stub_modules; stub_modules.install()
import numpy as np, pydicom, highdicom as hd
from pydicom.dataset import Dataset, FileMetaDataset
from pydicom.uid import ExplicitVRLittleEndian, ImplicitVRLittleEndian
bad = []
for ts in (ExplicitVRLittleEndian, ImplicitVRLittleEndian):
    for vals, dt in (([28428], np.uint16), ([3, 9], np.uint16), ([200, 7], np.uint8)):
        lut = hd.LUT(5, np.array(vals, dt))
        ds = Dataset(); ds.PixelRepresentation = 0; ds.ModalityLUTSequence = [lut]
        ds.file_meta = FileMetaDataset(); ds.file_meta.TransferSyntaxUID = ts
        b = io.BytesIO(); pydicom.dcmwrite(b, ds, enforce_file_format=False)
        back = pydicom.dcmread(io.BytesIO(b.getvalue()), force=True)
        l2 = hd.LUT.from_dataset(back.ModalityLUTSequence[0])
        try:
            got = l2.lut_data
            if got.shape != (len(vals),) or got.tolist() != vals:
                bad.append(f'{ts.name} {vals}: lut_data = {got!r}')
        except Exception as e:
            bad.append(f'{ts.name} {vals}: lut_data raises {type(e).__name__}: {e}')
for b in bad: print('D77 present:', b)
sys.exit(1 if bad else 0)
