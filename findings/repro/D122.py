"""D122 (C04, fixed 4a7336b): empty region of a FRACTIONAL segmentation with rescaling. exit 1 while the defect exists"""
import sys; sys.path[:0] = ['/repo/src', '/verif/harness']
import stub_modules; stub_modules.install()
import numpy as np, highdicom as hd, synth
src = synth.sm_tiled(4, 4, 2, 2)
m = np.zeros((1, 4, 4), np.float32); m[0, 1, 1] = 0.5
seg = synth.make_seg([src], m, 'FRACTIONAL', [1], tile_pixel_array=True, tile_size=(2, 2))
print(seg.get_total_pixel_matrix(row_start=2, row_end=2, rescale_fractional=False).shape)   # (0, 4, 1)
try:
    print(seg.get_total_pixel_matrix(row_start=2, row_end=2).shape)
except ValueError as e:
    print('ValueError', e); sys.exit(1)   # ValueError: zero-size array to reduction operation maximum
