import sys
sys.path.insert(0, sys.argv[1] + '/src')
import numpy as np
from pydicom.uid import ExplicitVRLittleEndian
from highdicom.frame import encode_frame, decode_frame

# A frame of small values held in a 16 bit array, encoded natively with
# bits_allocated=8: either it is refused, or it must read back unchanged.
arr = np.arange(16, dtype=np.uint16).reshape(4, 4)
kw = dict(
    transfer_syntax_uid=ExplicitVRLittleEndian,
    bits_allocated=8,
    bits_stored=8,
    photometric_interpretation='MONOCHROME2',
    pixel_representation=0,
)
try:
    enc = encode_frame(arr, **kw)
except ValueError as e:
    print('ok (refused):', e)
    sys.exit(0)
if len(enc) != arr.size * kw['bits_allocated'] // 8:
    print(f'FAIL: native frame of {arr.size} pixels at 8 bits allocated '
          f'encoded as {len(enc)} bytes')
    sys.exit(1)
dec = decode_frame(enc, rows=4, columns=4, samples_per_pixel=1, **kw)
if not np.array_equal(dec, arr):
    print('FAIL: frame does not round trip')
    sys.exit(1)
print('ok')
