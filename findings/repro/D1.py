# D1: BINARY native frames of < 8 pixels must be bit-packed contiguously across frames
import sys, io
sys.path.insert(0, '/root/scratch/repro')
from _fixA_util import setup
np, pydicom, hd, mk, desc, seg = setup(sys.argv[1])
src = [mk(i, 2, 3) for i in range(3)]
arr = np.zeros((3, 2, 3), np.uint8)
arr[0, 0, 1] = 1; arr[1, 1, 2] = 1; arr[1, 0, 0] = 1; arr[2, 1, 1] = 1; arr[2, 0, 2] = 1
s = seg(src, arr, 'BINARY', [1], transfer_syntax_uid='1.2.840.10008.1.2.1')
uids = [d.SOPInstanceUID for d in src]
exp_len = (3 * 6 + 7) // 8
exp_len += exp_len % 2
if len(s.PixelData) != exp_len:
    print('D1: PixelData length', len(s.PixelData), 'expected', exp_len); sys.exit(1)
b = io.BytesIO(); s.save_as(b)
r = hd.seg.segread(b.getvalue())
got = r.get_pixels_by_source_instance(uids, combine_segments=True)
if not np.array_equal(got, arr):
    print('D1: round trip mismatch'); sys.exit(1)
sys.exit(0)
