"""D123 (C09, fixed): VolumeToVolumeTransformer(check_bounds=True) compared float16 outputs with bounds rounded to float16,
so index 1930.0 passed on an axis of 1930 voxels.   usage: /venv/bin/python D123.py [repo]   exit 1 while the defect exists"""
import sys
repo = sys.argv[1] if len(sys.argv) > 1 else '/repo'
sys.path[:0] = [repo + '/src']
import numpy as np
from highdicom.volume import VolumeGeometry, VolumeToVolumeTransformer
g = VolumeGeometry(np.eye(4), [4, 4, 1930], 'PATIENT')
t = VolumeToVolumeTransformer(g, g, round_output=False, check_bounds=True)
pts = np.array([[1.0, 1.0, 1930.0]], np.float16)          # half a voxel beyond the last voxel centre 1929
try:
    print('accepted:', t(pts)); sys.exit(1)
except ValueError as e:
    print('refused:', e); sys.exit(0)
