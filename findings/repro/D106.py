# get_frames / _get_pixels_by_frame reuse the transform built for the first frame although frame 2 carries its
# OWN per-frame window (frame 1 has none, the shared window applies to it): get_frames()[1] != get_frame(2).
# exit 1 while the defect exists
import sys; sys.path[:0] = [(sys.argv[1] if len(sys.argv) > 1 else '/repo') + '/src', '/verif/harness']
import stub_modules; stub_modules.install()
import warnings; warnings.filterwarnings('ignore')
import numpy as np, c06
E = c06._empty_level; w = lambda c, wd: {'centers': [c], 'widths': [wd], 'expl': None, 'fn': None}
c = {'kind': 'mono_mf', 'signed': False, 'alloc': 8, 'stored': 8, 'rows': 1, 'cols': 2, 'frames': [[10, 20], [10, 20]],
     'mono1': False, 'pls': None, 'modlut': None, 'voiluts': None, 'root': E(),
     'shared': dict(E(), win=w('15', '20')), 'perframe': [E(), dict(E(), win=w('100', '50'))]}
im, _ = c06._build_image(c)
one, many = im.get_frame(2, apply_voi_transform=True), im.get_frames(apply_voi_transform=True)[1]
print('get_frame(2) =', one.tolist(), ' get_frames()[1] =', many.tolist())
sys.exit(0 if np.allclose(one, many) else 1)
