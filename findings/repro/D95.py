import sys; sys.path[:0]=['/repo/src','/verif/harness']
import stub_modules; stub_modules.install()
import numpy as np
from pydicom import Dataset
from highdicom import spatial as S
ds = Dataset(); ds.FrameOfReferenceUID='1.2.3'; ds.SOPClassUID='1.2.840.10008.5.1.4.1.1.77.1.6'
ds.ImageOrientationSlide=[0.,1.,0.,1.,0.,0.]
o=Dataset(); o.XOffsetInSlideCoordinateSystem=10.; o.YOffsetInSlideCoordinateSystem=20.; o.ZOffsetInSlideCoordinateSystem=5.
ds.TotalPixelMatrixOriginSequence=[o]; ds.TotalPixelMatrixRows=8; ds.TotalPixelMatrixColumns=8; ds.Rows=4; ds.Columns=4
ds.TotalPixelMatrixFocalPlanes=1; ds.NumberOfOpticalPaths=1; ds.OpticalPathSequence=[Dataset()]; ds.NumberOfFrames=4
pm=Dataset(); pm.PixelSpacing=[0.5,0.5]; sh=Dataset(); sh.PixelMeasuresSequence=[pm]; ds.SharedFunctionalGroupsSequence=[sh]
ds.DimensionOrganizationType='TILED_FULL'
f=S.PixelToReferenceTransformer.for_image(ds, frame_number=2)
t=S.PixelToReferenceTransformer.for_image(ds, for_total_pixel_matrix=True)
print('frame 2 pixel (0,0):', f(np.array([[0,0]])), ' TPM pixel (4,0):', t(np.array([[4,0]])))
try:
    print(S.PixelToPixelTransformer.for_images(ds, ds, frame_number_from=2, for_total_pixel_matrix_to=True)(np.array([[0,0]])))
except Exception as e: print('P2P frame->TPM:', type(e).__name__, e)
