"""D19: ContentSequence.index returns position among same-name items; insert ignores is_sr."""
import sys
sys.path.insert(0, sys.argv[1] + '/src')
from pydicom.sr.codedict import codes
from highdicom.sr import ContentSequence, TextContentItem

a = TextContentItem(name=codes.DCM.Finding, value='a', relationship_type='CONTAINS')
b = TextContentItem(name=codes.DCM.Derivation, value='b', relationship_type='CONTAINS')
c = TextContentItem(name=codes.DCM.Finding, value='c', relationship_type='CONTAINS')
seq = ContentSequence([a, b, c])
fails = []
got = [seq.index(x) for x in (a, b, c)]
if got != [0, 1, 2]:
    fails.append(f'index() returned {got}, expected [0, 1, 2]')
# non-SR sequence (acquisition context): items have no relationship type
n1 = TextContentItem(name=codes.DCM.Finding, value='n1')
n2 = TextContentItem(name=codes.DCM.Derivation, value='n2')
nseq = ContentSequence([n1], is_sr=False)
try:
    nseq.insert(0, n2)
except AttributeError as e:
    fails.append(f'insert into is_sr=False sequence refused: {e}')
else:
    if list(nseq) != [n2, n1] or len(nseq.find(codes.DCM.Derivation)) != 1:
        fails.append('insert into is_sr=False sequence gave wrong content')
if fails:
    print('D19 present:', *fails, sep='\n  ')
    sys.exit(1)
sys.exit(0)
