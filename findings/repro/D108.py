import sys; sys.path[:0] = ['/repo/src', '/verif/harness']
import stub_modules; stub_modules.install()
import numpy as np, synth, highdicom as hd
px = np.arange(27, dtype=np.uint8).reshape(3, 3, 3)
ds = synth.sm_tiled(3, 3, 3, 3, samples=3, pixels=px)          # colour slide image, ONE 3x3 tile = whole matrix
im = hd.Image.from_dataset(ds, copy=True)
assert np.array_equal(im.get_total_pixel_matrix(apply_icc_profile=False), px)   # fine
_ = im.pixel_array                                               # cache the decoded array: shape (3, 3, 3), no frame axis
try:
    im.get_total_pixel_matrix(apply_icc_profile=False)           # same call, same object
except ValueError as e:
    print('ValueError:', e)                                      # Expected an image of shape (R, C, 3).
try:
    im.get_frames([1], apply_icc_profile=False)
except ValueError as e:
    print('get_frames ValueError:', e)
print(im.get_frame(1, apply_icc_profile=False).shape)
