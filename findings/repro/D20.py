import sys
sys.path.insert(0, sys.argv[1] + '/src')
import numpy as np
from highdicom.volume import VolumeGeometry, VolumeToVolumeTransformer

g_from = VolumeGeometry(np.eye(4), (10, 10, 10), coordinate_system='PATIENT')
g_to = VolumeGeometry(np.eye(4), (2, 5, 10), coordinate_system='PATIENT')
t = VolumeToVolumeTransformer(g_from, g_to, check_bounds=True)
fail = []
# valid index for the "to" volume (shape (2, 5, 10)): must be accepted
try:
    t(np.array([[1, 4, 9]]))
except ValueError:
    fail.append('in-bounds index [1, 4, 9] rejected')
# axis 1 out of bounds (4 points so a per-point reduction is not zipped over it)
pts = np.array([[0, 0, 0], [0, 0, 0], [0, 0, 0], [0, 7, 0]])
try:
    t(pts)
    fail.append('out-of-bounds index [0, 7, 0] as 4th point accepted')
except ValueError:
    pass
# axis 2 in bounds but larger than shape of axis 0
try:
    t(np.array([[0, 0, 9], [0, 0, 9], [0, 0, 9]]))
except ValueError:
    fail.append('in-bounds points [0, 0, 9] rejected')
if fail:
    print('D20:', '; '.join(fail))
    sys.exit(1)
sys.exit(0)
