# D76: VOILUTTransformation.__init__ did list(window_explanation) on a single str, storing
# 'W0' as ['W', '0'], so the window cannot be selected by its explanation.
import sys, warnings
warnings.filterwarnings('ignore')
sys.path.insert(0, sys.argv[1] + '/src'); sys.path.insert(0, '/verif/harness')
import stub_modules; stub_modules.install()
import numpy as np, highdicom as hd
bad = []
t = hd.VOILUTTransformation(window_center=86.0, window_width=129.0, window_explanation='W0')
if t.WindowCenterWidthExplanation != 'W0':
    bad.append(f'single explanation stored as {t.WindowCenterWidthExplanation!r}')
try:
    a = t.apply(np.array([1, 86, 200]), voi_transform_selector='W0')
    b = t.apply(np.array([1, 86, 200]), voi_transform_selector=0)
    if not np.array_equal(a, b):
        bad.append('selection by explanation differs from selection by index')
except Exception as e:
    bad.append(f'apply(voi_transform_selector="W0") raises {type(e).__name__}: {e}')
t2 = hd.VOILUTTransformation(window_center=[1.0, 2.0], window_width=[3.0, 4.0], window_explanation=['A', 'B'])
if list(t2.WindowCenterWidthExplanation) != ['A', 'B']:
    bad.append(f'list explanation stored as {t2.WindowCenterWidthExplanation!r}')
for b in bad: print('D76 present:', b)
sys.exit(1 if bad else 0)
