"""D29: get_qualitative_evaluations returns the "Finding category" item as an evaluation."""
import sys
sys.path.insert(0, sys.argv[1] + '/src')
from pydicom.sr.codedict import codes
from highdicom.sr import (
    MeasurementsAndQualitativeEvaluations, QualitativeEvaluation,
    TrackingIdentifier, CodedConcept,
)
from highdicom.uid import UID

ev = QualitativeEvaluation(
    name=CodedConcept('RID49502', 'RADLEX', 'clinically significant prostate cancer'),
    value=codes.SCT.Yes,
)
group = MeasurementsAndQualitativeEvaluations(
    tracking_identifier=TrackingIdentifier(uid=UID(), identifier='t1'),
    finding_type=codes.SCT.Neoplasm,
    finding_category=codes.SCT.MorphologicallyAbnormalStructure,
    qualitative_evaluations=[ev],
)
got = group.get_qualitative_evaluations()
names = [e.name.meaning for e in got]
if len(got) != 1 or got[0].name != ev.name:
    print(f'D29 present: get_qualitative_evaluations() returned {names}, expected only {[ev.name.meaning]}')
    sys.exit(1)
if group.finding_category != codes.SCT.MorphologicallyAbnormalStructure:
    print('finding_category lost')
    sys.exit(1)
sys.exit(0)
