import sys, io, copy, warnings, traceback
warnings.filterwarnings('ignore')
root = sys.argv[1]
sys.path.insert(0, root + '/src')
sys.path.insert(0, '/root/scratch/probe')
import stubmods; stubmods.install()
import logging; logging.disable(logging.CRITICAL)
import numpy as np, pydicom, highdicom as hd
from pydicom.sr.codedict import codes

base = pydicom.dcmread(root + '/data/test_files/ct_image.dcm')
def mk(i, rows, cols):
    ds = copy.deepcopy(base); ds.Rows = rows; ds.Columns = cols
    ds.SOPInstanceUID = hd.UID()
    ds.ImagePositionPatient = [0.0, 0.0, 2.5 * i]
    ds.ImageOrientationPatient = [1, 0, 0, 0, 1, 0]; ds.PixelSpacing = [1.0, 1.0]
    ds.PixelData = np.zeros((rows, cols), np.int16).tobytes()
    return ds

fail = []
for dt in (np.float32, np.float64):
    arr = (np.arange(2 * 3 * 4, dtype=dt).reshape(2, 3, 4) / 8 - 1).astype(dt)
    big = 1e38 if dt == np.float32 else 1e300
    m = hd.pm.RealWorldValueMapping(
        lut_label='m', lut_explanation='e', unit=codes.UCUM.NoUnits,
        value_range=(-big, big), slope=2.0, intercept=0.5)
    pm = hd.pm.ParametricMap(
        [mk(i, 3, 4) for i in range(2)], arr, hd.UID(), 1, hd.UID(), 1, 'm', 'mm', '1', 'sn',
        contains_recognizable_visual_features=False, real_world_value_mappings=[m],
        window_center=1.0, window_width=2.0)
    b = io.BytesIO(); pm.save_as(b)
    for lazy in (False, True):
        tag = f'{np.dtype(dt).name} lazy={lazy}'
        try:
            im = hd.imread(b.getvalue(), lazy_frame_retrieval=lazy)
            one = im.get_stored_frame(2)
            fr = im.get_stored_frames()
            val = im.get_frame(1, apply_real_world_transform=True)
        except Exception as e:
            fail.append(f'{tag}: {type(e).__name__}: {e} '
                        f'[{traceback.extract_tb(e.__traceback__)[-1].name}]')
            continue
        if fr.dtype != dt or not np.array_equal(fr, arr) or not np.array_equal(one, arr[1]):
            fail.append(f'{tag}: stored frames differ from what was written')
        if not np.allclose(val, arr[0].astype(np.float64) * 2.0 + 0.5):
            fail.append(f'{tag}: real world values wrong')
if fail:
    print('FAIL: float parametric map cannot be read through the image interface')
    print('  ' + '\n  '.join(fail))
    sys.exit(1)
print('ok')
