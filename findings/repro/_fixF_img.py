# helper for the fixF image-transform repros: a small 16-bit CT-derived image read with hd.imread
import sys, io, copy, warnings
warnings.filterwarnings('ignore')
def setup(path):
    sys.path.insert(0, path + '/src'); sys.path.insert(0, '/verif/harness')
    import stub_modules; stub_modules.install()
    import logging; logging.disable(logging.CRITICAL)
def make(path, px, signed=False, **attrs):
    import numpy as np, pydicom, highdicom as hd
    ds = pydicom.dcmread(path + '/data/test_files/ct_image.dcm')
    ds.Rows, ds.Columns = px.shape
    ds.PixelRepresentation = 1 if signed else 0
    ds.BitsAllocated = 16; ds.BitsStored = 16; ds.HighBit = 15
    ds.PixelData = px.astype(np.int16 if signed else np.uint16).tobytes()
    for kw in ['RescaleSlope', 'RescaleIntercept', 'WindowCenter', 'WindowWidth', 'VOILUTFunction',
               'PresentationLUTShape', 'RescaleType', 'WindowCenterWidthExplanation']:
        if kw in ds: delattr(ds, kw)
    ds.PhotometricInterpretation = 'MONOCHROME2'
    for k, v in attrs.items(): setattr(ds, k, v)
    b = io.BytesIO(); ds.save_as(b)
    return hd.imread(b.getvalue())
