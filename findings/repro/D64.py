# D64: AnnotationGroup.__init__ cast integer coordinate arrays with astype(np.float32); values with
# |v| > 2**24 not representable in float32 are stored changed (in memory the cached input is
# returned, so the stored and in-memory views disagree).
import sys, warnings
warnings.filterwarnings('ignore')
sys.path.insert(0, sys.argv[1] + '/src'); sys.path.insert(0, '/verif/harness')
import stub_modules; stub_modules.install()
import numpy as np, highdicom as hd
from pydicom.dataset import Dataset
from pydicom.sr.codedict import codes
from highdicom.ann import AnnotationGroup
bad = []
def build(data):
    return AnnotationGroup(number=1, uid=hd.UID(), label='g',
                           annotated_property_category=codes.SCT.MorphologicallyAbnormalStructure,
                           annotated_property_type=codes.SCT.Neoplasm, graphic_type='POINT',
                           graphic_data=data, algorithm_type='MANUAL')
for pts, want_double in (([[2**24 + 1, 5]], True), ([[-(2**24 + 3), 7], [1, 2]], True),
                         ([[2**24, 5], [100, 200]], False), ([[2**30, 2**24 + 2]], False)):
    data = [np.array([p], dtype=np.int64) for p in pts]
    g = build(data)
    ds = Dataset(); ds.update(g)
    back = AnnotationGroup.from_dataset(ds).get_graphic_data(coordinate_type='2D')
    for a, b in zip(data, back):
        if not np.array_equal(a.astype(np.float64), np.asarray(b, np.float64)):
            bad.append(f'input {a.tolist()} stored as {np.asarray(b).tolist()}')
    if ('DoublePointCoordinatesData' in g) != want_double:
        bad.append(f'{pts}: double storage = {"DoublePointCoordinatesData" in g}, expected {want_double}')
for b in bad: print('D64 present:', b)
sys.exit(1 if bad else 0)
