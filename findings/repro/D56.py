# D56: _CombinedPixelTransform discovers functional groups in the order root, shared, per-frame and
# stops at the first hit, so when a group is present both shared and per-frame (non-conformant) the
# SHARED one wins; per-frame parameters should take precedence over shared.
import sys, io, warnings
warnings.filterwarnings('ignore')
sys.path.insert(0, sys.argv[1] + '/src'); sys.path.insert(0, '/verif/harness')
import stub_modules; stub_modules.install()
import logging; logging.disable(logging.CRITICAL)
import numpy as np, synth, highdicom as hd
from pydicom.dataset import Dataset
def pvt(slope, intercept):
    d = Dataset(); d.RescaleSlope = slope; d.RescaleIntercept = intercept; d.RescaleType = 'US'; return d
def voi(c, w):
    d = Dataset(); d.WindowCenter = c; d.WindowWidth = w; return d
bad = []
ds = synth.ct_multiframe([0.0, 1.0], 2, 3)
px = np.arange(12, dtype=np.int16).reshape(2, 2, 3); ds.PixelData = px.tobytes()
ds.PixelRepresentation = 1
ds.SharedFunctionalGroupsSequence[0].PixelValueTransformationSequence = [pvt(1.0, 100.0)]
ds.SharedFunctionalGroupsSequence[0].FrameVOILUTSequence = [voi(100.0, 50.0)]
for k, it in enumerate(ds.PerFrameFunctionalGroupsSequence):
    it.PixelValueTransformationSequence = [pvt(2.0, 10.0 * (k + 1))]
    it.FrameVOILUTSequence = [voi(20.0 * (k + 1), 40.0)]
im = synth.write_read(ds, hd.imread)
for k in range(2):
    got = im.get_frame(k + 1, apply_modality_transform=True, apply_voi_transform=False,
                       apply_real_world_transform=False)
    exp = 2.0 * px[k] + 10.0 * (k + 1)
    if not np.allclose(got, exp):
        bad.append(f'frame {k + 1}: modality transform gives {got.ravel()[:3]}, per-frame parameters give {exp.ravel()[:3]}')
    got = im.get_frame(k + 1, apply_modality_transform=True, apply_voi_transform=True,
                       apply_real_world_transform=False)
    c, w = 20.0 * (k + 1), 40.0
    e = np.clip((exp - (c - 0.5)) / (w - 1) + 0.5, 0, 1)
    if not np.allclose(got, e, atol=1e-9):
        bad.append(f'frame {k + 1}: VOI window gives {np.round(got.ravel()[:3], 3)}, per-frame window gives {np.round(e.ravel()[:3], 3)}')
for b in bad: print('D56 present:', b)
sys.exit(1 if bad else 0)
