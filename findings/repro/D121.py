"""D121 (C04, fixed c43ed8f): declared total pixel matrix size from explicit plane positions. exit 1 while the defect exists"""
import sys; sys.path[:0] = ['/repo/src', '/verif/harness']
import stub_modules; stub_modules.install()
import numpy as np, highdicom as hd, synth
src = synth.sm_tiled(12, 12, 4, 4)                       # any tiled source
pos = [(1, 5), (5, 1)]                                   # (row, column) of two 2x2 frames
pps = [hd.PlanePositionSequence('SLIDE', image_position=(10.0 + c, 20.0 + r, 0.0), pixel_matrix_position=(c, r)) for r, c in pos]
seg = synth.make_seg([src], np.ones((2, 2, 2), np.uint8), 'BINARY', [1], plane_positions=pps)
print(seg.TotalPixelMatrixRows, seg.TotalPixelMatrixColumns)       # 2 6  (expected 6 6: a frame sits at rows 5..6)
print(seg.get_total_pixel_matrix(combine_segments=True))          # 2 x 6: the frame at (5, 1) cannot be read at all

sys.exit(0 if (seg.TotalPixelMatrixRows, seg.TotalPixelMatrixColumns) == (6, 6) else 1)
