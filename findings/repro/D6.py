import sys
sys.path.insert(0, sys.argv[1] + '/src')
from highdicom.image import _Image

f = _Image._standardize_slice_indices
fail = []
# one-based: slices 1..3 of 5  -> zero-based (0, 2); slice_end is one beyond last
for (s, e, n, expect) in [(1, 3, 5, (0, 2)), (1, 6, 5, (0, 5)), (2, 4, 5, (1, 3)),
                          (1, None, 5, (0, 5)), (1, -1, 5, (0, 4))]:
    try:
        got = f(s, e, n, as_indices=False)
    except Exception as ex:
        fail.append(f'slice_start={s}, slice_end={e}: raised {ex!r}')
        continue
    if tuple(got) != expect:
        fail.append(f'slice_start={s}, slice_end={e}: got {got}, expected {expect}')
# a one-based slice_end of 0 is meaningless and must be refused
try:
    f(2, 0, 5, as_indices=False)
    fail.append('slice_end=0 (one-based) accepted')
except ValueError:
    pass
if fail:
    print('FAIL:', *fail, sep='\n  ')
    sys.exit(1)
print('ok')
