# D3: 16-bit LABELMAP must not be truncated to uint8 when segments are remapped
import sys
sys.path.insert(0, '/root/scratch/repro')
from _fixA_util import setup
np, pydicom, hd, mk, desc, seg = setup(sys.argv[1])
src = [mk(i, 3, 3) for i in range(2)]
arr = np.zeros((2, 3, 3), np.uint16)
arr[0, 0, 0] = 1; arr[0, 1, 1] = 300; arr[1, 2, 2] = 300; arr[1, 0, 1] = 1
s = seg(src, arr, 'LABELMAP', [1, 300])
uids = [d.SOPInstanceUID for d in src]
try:
    got = s.get_pixels_by_source_instance(uids, segment_numbers=[300])
except Exception as e:
    print('D3: raised', type(e).__name__, e); sys.exit(1)
exp = (arr == 300)[..., None]
if not np.array_equal(got.astype(bool), exp):
    print('D3: segment 300 read back with', int(got.sum()), 'pixels, expected', int(exp.sum()))
    sys.exit(1)
got2 = s.get_pixels_by_source_instance(uids, segment_numbers=[300, 1], combine_segments=True, relabel=True)
exp2 = np.where(arr == 300, 1, np.where(arr == 1, 2, 0))
if not np.array_equal(got2, exp2):
    print('D3: relabel combine mismatch', np.unique(got2).tolist()); sys.exit(1)
sys.exit(0)
