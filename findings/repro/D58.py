# D58: NumContentItem with a large int (>= 15 digits): NumericValue = DS(value, auto_format=True)
# formats it like a float ('1.2345678901e+14'), so after a file round trip .value differs from
# the int given although the plain decimal string is a valid DS (<= 16 chars).
import sys, warnings, io
warnings.filterwarnings('ignore')
sys.path.insert(0, sys.argv[1] + '/src')
import pydicom
from pydicom.dataset import Dataset
from pydicom.sr.codedict import codes
from highdicom.sr import NumContentItem
bad = []
for v in (123456789012345, 2**53, -123456789012345, 999999999999999, 7, 10**15, 0):
    item = NumContentItem(name=codes.SCT.Volume, value=v, unit=codes.UCUM.NoUnits,
                          relationship_type='CONTAINS')
    ds = Dataset(); ds.update(item)
    buf = io.BytesIO(); pydicom.dcmwrite(buf, ds, implicit_vr=False, little_endian=True); buf.seek(0)
    back = NumContentItem.from_dataset(pydicom.dcmread(buf, force=True))
    nv = back.MeasuredValueSequence[0].NumericValue
    if len(str(nv)) > 16:
        bad.append(f'{v}: NumericValue {str(nv)!r} longer than 16 chars')
    if back.value != v or item.value != v:
        bad.append(f'{v}: stored NumericValue {str(nv)!r} -> value {back.value!r}')
for b in bad: print('D58 present:', b)
sys.exit(1 if bad else 0)
