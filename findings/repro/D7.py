# D7: pyramid levels derived by downsampling must cover the same physical extent
# (rows*row_spacing, cols*col_spacing) at every level, whatever the rank of the mask
import sys
sys.path.insert(0, '/root/scratch/repro')
from _fixA_util import setup
np, pydicom, hd, mk, desc, seg = setup(sys.argv[1])
sm = pydicom.dcmread(sys.argv[1] + '/data/test_files/sm_image.dcm')
R, C = sm.TotalPixelMatrixRows, sm.TotalPixelMatrixColumns
sp = [float(x) for x in sm.SharedFunctionalGroupsSequence[0].PixelMeasuresSequence[0].PixelSpacing]
mask = np.zeros((R, C), np.uint8); mask[R // 4: R // 2, C // 4: C // 2] = 1
for name, arr in (('2-D', mask), ('3-D', mask[None]), ('4-D', mask[None, ..., None])):
    segs = hd.seg.create_segmentation_pyramid(
        [sm], [arr], 'BINARY', [desc(1)], hd.UID(), 1, 'm', 'mm', '1', 'sn', downsample_factors=[2.0])
    for lvl, s in enumerate(segs):
        pm = s.SharedFunctionalGroupsSequence[0].PixelMeasuresSequence[0]
        ext = (s.TotalPixelMatrixRows * float(pm.PixelSpacing[0]),
               s.TotalPixelMatrixColumns * float(pm.PixelSpacing[1]))
        if not np.allclose(ext, (R * sp[0], C * sp[1]), rtol=0.05):
            print(f'D7: {name} mask, level {lvl}: spacing {list(pm.PixelSpacing)} gives extent {ext},'
                  f' expected {(R * sp[0], C * sp[1])}'); sys.exit(1)
sys.exit(0)
