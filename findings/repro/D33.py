# D33: LABELMAP built from a 4-D stack must store the described segment numbers,
# not the channel index + 1
import sys
sys.path.insert(0, '/root/scratch/repro')
from _fixA_util import setup
np, pydicom, hd, mk, desc, seg = setup(sys.argv[1])
src = [mk(i, 3, 3) for i in range(2)]
uids = [d.SOPInstanceUID for d in src]
for segs in ([1, 7], [7], [2, 300]):
    arr = np.zeros((2, 3, 3, len(segs)), np.uint8)
    arr[0, 0, 0, 0] = 1; arr[1, 1, 1, -1] = 1; arr[1, 2, 0, -1] = 1
    s = seg(src, arr, 'LABELMAP', segs)
    stored = sorted(set(np.unique(s.pixel_array).tolist()) - {0})
    if stored != sorted(segs):
        print('D33: segments', segs, 'stored pixel values', stored); sys.exit(1)
    got = s.get_pixels_by_source_instance(uids)
    if not np.array_equal(got, arr):
        print('D33: segments', segs, 'do not read back; per-segment sums',
              got.sum(axis=(0, 1, 2)).tolist(), 'expected', arr.sum(axis=(0, 1, 2)).tolist())
        sys.exit(1)
sys.exit(0)
