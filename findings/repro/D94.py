# C08: Volume.squeeze_channel(channel_descriptors=[...]) drops every channel that is NOT listed from
# the channel table it passes on (new_channel_idens only collects listed, non-singleton channels),
# so squeezing one of several channel dimensions is refused with a ValueError from the constructor.
import sys; sys.path.insert(0, '/repo/src')
import numpy as np
from highdicom.volume import Volume
a = np.arange(16).reshape(2, 2, 2, 1, 2)
v = Volume(a, np.eye(4), 'PATIENT', channels={'SegmentNumber': [1], 'OpticalPathIdentifier': ['a', 'b']})
print(v.squeeze_channel().shape)                        # (2, 2, 2, 2): fine, OpticalPathIdentifier kept
try: print(v.squeeze_channel(['SegmentNumber']).shape)  # documented use: "squeeze only the specified channels"
except ValueError as e: print('ValueError:', e)         # Number of items in the 'channels' parameter (0) ...
