# VolumeToVolumeTransformer, UNSIGNED index array, round_output=False: volume.py:3474 `if not input_is_int:
# output_indices = output_indices.astype(indices.dtype)` casts the float result to the unsigned input dtype
import sys; sys.path[:0] = ['/repo/src', '/verif/harness']
import stub_modules; stub_modules.install()
import numpy as np
from highdicom.volume import VolumeGeometry, VolumeToVolumeTransformer
A = np.eye(4); B = np.eye(4); B[:3, 3] = [2.5, 0, 0]
a = VolumeGeometry(A, (10, 10, 10), coordinate_system='PATIENT'); b = VolumeGeometry(B, (300, 10, 10), coordinate_system='PATIENT')
idx = np.array([[1, 2, 3], [4, 5, 6]], dtype=np.uint8)
out = VolumeToVolumeTransformer(a, b, check_bounds=True)(idx)          # must raise: point 0 maps to -1.5 (outside b)
print(out.dtype, out.tolist())                                         # uint8 [[255, 2, 3], [1, 5, 6]]
print(b.map_reference_to_indices(a.map_indices_to_reference(idx)).tolist())   # [[-1.5, 2, 3], [1.5, 5, 6]]
