# D24: constructing a FRACTIONAL segmentation must not modify the caller's pixel array
import sys
sys.path.insert(0, '/root/scratch/repro')
from _fixA_util import setup
np, pydicom, hd, mk, desc, seg = setup(sys.argv[1])
src = [mk(i, 3, 3) for i in range(2)]
uids = [d.SOPInstanceUID for d in src]
for shape in [(2, 3, 3), (2, 3, 3, 2)]:
    arr = np.zeros(shape, np.uint8)
    arr[0, 0, 0, ...] = 1; arr[1, 2, 1, ...] = 1
    arr0 = arr.copy()
    nseg = 1 if len(shape) == 3 else 2
    s = seg(src, arr, 'FRACTIONAL', list(range(1, nseg + 1)), max_fractional_value=255)
    if not np.array_equal(arr, arr0):
        print('D24: caller array mutated for shape', shape, 'values now', np.unique(arr).tolist())
        sys.exit(1)
    got = s.get_pixels_by_source_instance(uids, rescale_fractional=False)
    if not np.array_equal(got, arr0.reshape(2, 3, 3, nseg).astype(got.dtype) * 255):
        print('D24: stored values wrong', np.unique(got).tolist()); sys.exit(1)
sys.exit(0)
