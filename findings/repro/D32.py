import sys
sys.path.insert(0, sys.argv[1] + '/src')
import numpy as np
from highdicom.spatial import (
    get_volume_positions, get_normal_vector, VOLUME_INDEX_CONVENTION as CONV
)

fail = []
# 1. Axis-aligned regular stack, shuffled: not a volume in the order passed
ori = [1.0, 0.0, 0.0, 0.0, 1.0, 0.0]
shuffled = [[0.0, 0.0, z] for z in (0.0, 2.0, 1.0, 3.0)]
sp, idx = get_volume_positions(shuffled, ori, sort=False)
if sp is not None:
    fail.append(f'shuffled stack accepted with sort=False: {sp}, {idx}')
if get_volume_positions(shuffled, ori, sort=True)[1] not in ([0, 2, 1, 3], [3, 1, 2, 0]):
    fail.append('sort=True result changed')

# 2. Oblique stack whose lexicographic (x first) order is the reverse of the
# order along the normal
s = 1 / np.sqrt(2)
ori2 = [0.0, 1.0, 0.0, s, 0.0, s]
if get_normal_vector(ori2, index_convention=CONV)[0] > 0:
    ori2 = [0.0, 1.0, 0.0, -s, 0.0, -s]
n = get_normal_vector(ori2, index_convention=CONV)
assert n[0] < 0  # x decreases along the normal
increasing = [(1.5 * i * n).tolist() for i in range(4)]
decreasing = increasing[::-1]
for name, pos, expect_ok in (
    ('increasing', increasing, True), ('decreasing', decreasing, False)
):
    sp, idx = get_volume_positions(
        pos, ori2, sort=False, enforce_handedness=True,
    )
    if expect_ok:
        if sp is None or idx != [0, 1, 2, 3] or abs(sp - 1.5) > 1e-6:
            fail.append(f'{name} stack along normal: got {sp}, {idx}')
    elif sp is not None:
        fail.append(f'{name} stack accepted with enforce_handedness: {sp}, {idx}')
# without enforcing handedness indices must still be the order passed
for name, pos in (('increasing', increasing), ('decreasing', decreasing)):
    sp, idx = get_volume_positions(pos, ori2, sort=False)
    if idx != [0, 1, 2, 3]:
        fail.append(f'{name} stack, sort=False: indices {idx} != [0, 1, 2, 3]')
if fail:
    print('D32:', '; '.join(fail))
    sys.exit(1)
sys.exit(0)
