# D4: tiled Segmentation.get_volume() with default arguments must carry the affine of the
# full volume geometry (origin at the first row/column), as Image.get_volume does
import sys
sys.path.insert(0, '/root/scratch/repro')
from _fixA_util import setup
np, pydicom, hd, mk, desc, seg = setup(sys.argv[1])
s = hd.seg.segread(sys.argv[1] + '/data/test_files/seg_image_sm_dots_tiled_full.dcm')
assert s.is_tiled
geom = s.get_volume_geometry()
vol = s.get_volume(combine_segments=True)
if vol.spatial_shape != geom.spatial_shape:
    print('D4: shape', vol.spatial_shape, 'vs', geom.spatial_shape); sys.exit(1)
if not np.allclose(vol.affine, geom.affine):
    print('D4: default get_volume affine differs from volume geometry; origin',
          vol.affine[:3, 3].tolist(), 'expected', geom.affine[:3, 3].tolist()); sys.exit(1)
sub = s.get_volume(combine_segments=True, row_start=3, column_start=5)
exp = geom[:, 2:, 4:].affine
if not np.allclose(sub.affine, exp):
    print('D4: sub-volume (row_start=3, column_start=5) affine misplaced'); sys.exit(1)
sys.exit(0)
