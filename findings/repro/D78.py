# D78: _check_rescale_dtype computed the output range ends as (min*slope+b, max*slope+b) without
# ordering them, so for a negative slope an integer dtype that cannot hold the result passed the
# check and the rescaled values wrapped.
import sys
sys.path.insert(0, '/root/scratch/repro')
import _fixF_img as F
F.setup(sys.argv[1])
import numpy as np
from highdicom.pixels import _check_rescale_dtype
bad = []
def refused(**kw):
    try:
        _check_rescale_dtype(**kw); return False
    except ValueError:
        return True
u8, i8, i16 = np.dtype(np.uint8), np.dtype(np.int8), np.dtype(np.int16)
for kw, want in (
    (dict(input_dtype=u8, output_dtype=u8, slope=-1.0, intercept=0.0), True),
    (dict(input_dtype=u8, output_dtype=i8, slope=-1.0, intercept=0.0), True),
    (dict(input_dtype=u8, output_dtype=u8, slope=-1.0, intercept=255.0), False),
    (dict(input_dtype=u8, output_dtype=i16, slope=-2.0, intercept=0.0), False),
    (dict(input_dtype=u8, output_dtype=i16, slope=-2.0, intercept=0.0, input_range=(0, 20000)), True),
    (dict(input_dtype=u8, output_dtype=u8, slope=1.0, intercept=1.0), True),
    (dict(input_dtype=u8, output_dtype=i16, slope=2.0, intercept=1.0), False),
):
    if refused(**kw) != want:
        bad.append(f'_check_rescale_dtype({kw}) refused={not want}, expected refused={want}')
px = np.array([[0, 7, 300, 406]])
im = F.make(sys.argv[1], px, RescaleSlope=-1, RescaleIntercept=0)
try:
    got = im.get_frame(1, dtype=np.uint16).ravel().tolist()
    if got != [0, -7, -300, -406]:
        bad.append(f'get_frame(dtype=uint16) with slope -1 returned wrapped values {got}')
except ValueError:
    pass
got = im.get_frame(1, dtype=np.int32).ravel().tolist()
if got != [0, -7, -300, -406]:
    bad.append(f'get_frame(dtype=int32) with slope -1 returned {got}')
for b in bad: print('D78 present:', b)
sys.exit(1 if bad else 0)
