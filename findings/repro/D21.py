"""D21: CodedConcept stores URN/URL code values of <= 16 chars in CodeValue, not URNCodeValue."""
import sys
sys.path.insert(0, sys.argv[1] + '/src')
from highdicom.sr import CodedConcept

fails = []
for v in ('urn:oid:1.2.3', 'http://a.org/1'):
    c = CodedConcept(v, 'X', 'm')
    if getattr(c, 'URNCodeValue', None) != v or hasattr(c, 'CodeValue'):
        fails.append(f'{v!r} stored in {[k for k in ("CodeValue", "LongCodeValue", "URNCodeValue") if hasattr(c, k)]}')
    if c.value != v:
        fails.append(f'{v!r} reads back {c.value!r}')
for v, kw in (('12345', 'CodeValue'), ('1' * 17, 'LongCodeValue'),
              ('urn:oid:1.2.840.10008.1', 'URNCodeValue')):
    c = CodedConcept(v, 'X', 'm')
    present = [k for k in ('CodeValue', 'LongCodeValue', 'URNCodeValue') if hasattr(c, k)]
    if present != [kw]:
        fails.append(f'{v!r} stored in {present}, expected {kw}')
if fails:
    print('D21 present:', *fails, sep='\n  ')
    sys.exit(1)
sys.exit(0)
