# D83: legacy conversion did datetime.combine(ds.AcquisitionDate, ds.AcquisitionTime) on pydicom's
# DA/TM *strings* (default config), so LegacyConvertedEnhancedCTImage raised TypeError for any
# series carrying AcquisitionDate and AcquisitionTime.
import sys, warnings, datetime
warnings.filterwarnings('ignore')
sys.path.insert(0, sys.argv[1] + '/src'); sys.path.insert(0, '/verif/harness')
import stub_modules; stub_modules.install()
import logging; logging.disable(logging.CRITICAL)
import highdicom as hd, synth
from highdicom.legacy import LegacyConvertedEnhancedCTImage
from pydicom.valuerep import DA, TM
bad = []
def run(name, series, want):
    try:
        im = LegacyConvertedEnhancedCTImage(series, hd.UID(), 1, hd.UID(), 1)
        got = [str(it.FrameContentSequence[0].FrameAcquisitionDateTime)
               for it in im.PerFrameFunctionalGroupsSequence]
        if got != want:
            bad.append(f'{name}: FrameAcquisitionDateTime {got}, expected {want}')
    except Exception as e:
        bad.append(f'{name}: raises {type(e).__name__}: {e}')
s = synth.ct_series(2, 4, 4)
for i, ds in enumerate(s):
    ds.AcquisitionDate = '20200102'; ds.AcquisitionTime = f'03040{i}.250000'
run('DA/TM strings', s, ['20200102030400', '20200102030401'])
s = synth.ct_series(2, 4, 4)
for i, ds in enumerate(s):
    ds.AcquisitionDate = DA(datetime.date(2020, 1, 2)); ds.AcquisitionTime = TM(datetime.time(3, 4, i))
run('DA/TM objects', s, ['20200102030400', '20200102030401'])
s = synth.ct_series(2, 4, 4)
if 'AcquisitionDate' in s[0] and 'AcquisitionTime' in s[0]:
    run('fixture values', s, [str(s[0].AcquisitionDate) + str(s[0].AcquisitionTime)[:6]] * 2)
for b in bad: print('D83 present:', b)
sys.exit(1 if bad else 0)
