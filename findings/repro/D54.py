# D54: a user-supplied VOILUTTransformation passed as voi_transform_selector: its VOILUTFunction
# was never read, so SIGMOID / LINEAR_EXACT windows were applied as LINEAR.
import sys
sys.path.insert(0, '/root/scratch/repro'); import _fixF_img as H
H.setup(sys.argv[1])
import numpy as np, highdicom as hd
px = np.arange(12, dtype=np.uint16).reshape(3, 4) * 10
bad = []
for attrs in ({}, {'RescaleSlope': 2.0, 'RescaleIntercept': -10.0, 'RescaleType': 'US'}):
    for fn in ('LINEAR', 'LINEAR_EXACT', 'SIGMOID'):
        # reference: same window stored in the image itself
        ref_im = H.make(sys.argv[1], px, WindowCenter=50.0, WindowWidth=80.0, VOILUTFunction=fn, **attrs)
        ref = ref_im.get_frame(1, apply_voi_transform=True, apply_real_world_transform=False)
        im = H.make(sys.argv[1], px, **attrs)
        t = hd.VOILUTTransformation(window_center=50.0, window_width=80.0, voi_lut_function=fn)
        got = im.get_frame(1, apply_voi_transform=True, voi_transform_selector=t,
                           apply_real_world_transform=False)
        if not np.allclose(got, ref, atol=1e-9):
            bad.append(f'{fn} (attrs {sorted(attrs)}): supplied transformation gives {np.round(got.ravel()[:6], 3)} '
                       f'but the same window in the dataset gives {np.round(ref.ravel()[:6], 3)}')
for b in bad: print('D54 present:', b)
sys.exit(1 if bad else 0)
