"""D37: ImageContentItem.referenced_segment_numbers raises TypeError after a byte round trip (>= 2 numbers)."""
import sys
sys.path.insert(0, sys.argv[1] + '/src')
from io import BytesIO
from pydicom import dcmread, dcmwrite
from pydicom.dataset import Dataset, FileMetaDataset
from pydicom.uid import ExplicitVRLittleEndian
from pydicom.sr.codedict import codes
from highdicom.sr import ImageContentItem

fails = []
for nums in ([3], [1, 2], [4, 5, 6]):
    item = ImageContentItem(
        name=codes.DCM.SourceImageForSegmentation,
        referenced_sop_class_uid='1.2.840.10008.5.1.4.1.1.66.4',
        referenced_sop_instance_uid='1.2.3.4',
        referenced_segment_numbers=nums,
        relationship_type='CONTAINS',
    )
    if item.referenced_segment_numbers != nums:
        fails.append(f'{nums}: before round trip got {item.referenced_segment_numbers}')
    ds = Dataset()
    ds.ContentSequence = [item]
    ds.file_meta = FileMetaDataset()
    ds.file_meta.TransferSyntaxUID = ExplicitVRLittleEndian
    buf = BytesIO()
    dcmwrite(buf, ds, enforce_file_format=False, implicit_vr=False, little_endian=True)
    buf.seek(0)
    back = dcmread(buf, force=True)
    r = ImageContentItem.from_dataset(back.ContentSequence[0])
    try:
        got = r.referenced_segment_numbers
        if got != nums:
            fails.append(f'{nums}: after round trip got {got}')
    except TypeError as e:
        fails.append(f'{nums}: after round trip TypeError: {e}')
if fails:
    print('D37 present:', *fails, sep='\n  ')
    sys.exit(1)
sys.exit(0)
