# D61: FRACTIONAL float mask whose non-zero values all quantise to 0 + omit_empty_frames=True:
# emptiness was judged on the un-quantised floats so the "all empty -> keep all frames" fallback
# did not fire, then every quantised frame was skipped -> 0 frames -> IndexError.
import sys, warnings
warnings.filterwarnings('ignore')
sys.path.insert(0, sys.argv[1] + '/src'); sys.path.insert(0, '/verif/harness')
import stub_modules; stub_modules.install()
import numpy as np, synth
bad = []
src = synth.ct_series(2, 2, 4)
a = np.zeros((2, 2, 4, 1), np.float32); a[0, 0, 0, 0] = 0.25
try:
    seg = synth.make_seg(src, a, 'FRACTIONAL', [1], max_fractional_value=1)
    if int(seg.NumberOfFrames) != 2 or seg.pixel_array.any():
        bad.append(f'unexpected frames {seg.NumberOfFrames}')
except Exception as e:
    bad.append(f'planes: {type(e).__name__}: {e}')
# one plane really non-empty, the other only sub-quantum: only one frame must be stored
b = np.zeros((2, 2, 4, 1), np.float32); b[0, 0, 0, 0] = 0.001; b[1, 1, 1, 0] = 1.0
try:
    seg = synth.make_seg(src, b, 'FRACTIONAL', [1], max_fractional_value=255)
    if int(seg.NumberOfFrames) != 1:
        bad.append(f'mixed: frames {seg.NumberOfFrames}')
except Exception as e:
    bad.append(f'mixed: {type(e).__name__}: {e}')
# tiled variant
try:
    sm = synth.sm_tiled(4, 4, 2, 2)
    t = np.zeros((1, 4, 4, 1), np.float32); t[0, 0, 0, 0] = 0.25
    seg = synth.make_seg([sm], t, 'FRACTIONAL', [1], max_fractional_value=1, tile_pixel_array=True)
    if int(seg.NumberOfFrames) != 4:
        bad.append(f'tiled: frames {seg.NumberOfFrames}')
except Exception as e:
    bad.append(f'tiled: {type(e).__name__}: {e}')
for x in bad: print('D61 present:', x)
sys.exit(1 if bad else 0)
