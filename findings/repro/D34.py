# D34: a measurement vector that is NaN for every annotation must survive a file round trip.
import sys, warnings, io
warnings.filterwarnings('ignore')
sys.path.insert(0, sys.argv[1] + '/src'); sys.path.insert(0, '/root/scratch/probe')
import stubmods; stubmods.install()
import numpy as np, pydicom, highdicom as hd
from pydicom.sr.codedict import codes
from highdicom.ann import AnnotationGroup, Measurements, MicroscopyBulkSimpleAnnotations

sm = pydicom.dcmread(sys.argv[1] + '/data/test_files/sm_image.dcm')
v = np.array([np.nan, np.nan, np.nan], np.float32)
m = Measurements(codes.SCT.Area, v, codes.UCUM.SquareMicrometer)
gd = [np.array([[float(i), 1.0]]) for i in range(3)]
g = AnnotationGroup(1, hd.UID(), 'L', codes.SCT.Tissue, codes.SCT.Tissue, 'POINT', gd,
                    'MANUAL', measurements=[m])
ann = MicroscopyBulkSimpleAnnotations([sm], '2D', [g], hd.UID(), 1, hd.UID(), 1,
                                      'm', 'mm', '1', 'sn')
b = io.BytesIO(); ann.save_as(b)
ann2 = hd.ann.annread(b.getvalue())
try:
    names, vals, units = ann2.get_annotation_group(number=1).get_measurements()
except Exception as e:
    print('D34 present: get_measurements after round trip raised', type(e).__name__, e); sys.exit(1)
if vals.shape != (3, 1) or not np.all(np.isnan(vals)):
    print('D34 present: wrong values', vals.tolist()); sys.exit(1)
sys.exit(0)
