import sys
repo = sys.argv[1] if len(sys.argv) > 1 else '/repo'
sys.path[:0] = [repo + '/src', '/verif/harness']
import stub_modules; stub_modules.install()
from highdicom import sr
from pydicom.sr.codedict import codes
a = sr.DeviceObserverIdentifyingAttributes(uid='1.2.3', role_in_procedure=codes.DCM.Performing)
b = sr.DeviceObserverIdentifyingAttributes.from_sequence(a)
got = [k.ConceptNameCodeSequence[0].CodeValue for k in b]
print(got)
sys.exit(0 if got == [k.ConceptNameCodeSequence[0].CodeValue for k in a] else 1)
