# D74: apply_lut with NumPy >= 2 raised OverflowError when first/last mapped value is not
# representable in the pixel dtype (np.clip / subtraction with an out-of-range python int), and
# the subtraction wrapped silently for signed narrow dtypes.
import sys, warnings
warnings.filterwarnings('ignore')
sys.path.insert(0, sys.argv[1] + '/src'); sys.path.insert(0, '/verif/harness')
import stub_modules; stub_modules.install()
import numpy as np
from highdicom.pixels import apply_lut
bad = []
def ref(arr, lut, first, clip):
    out = []
    for v in arr.ravel().tolist():
        i = v - first
        if clip: i = min(max(i, 0), len(lut) - 1)
        out.append(int(lut[i]))
    return out
cases = [
    (np.array([0, 7, 15, 200], np.uint8), np.array([10, 20, 40, 80], np.uint16), -9, True),
    (np.array([0, 7, 15, 200], np.uint8), np.arange(300, dtype=np.uint16), 0, True),
    (np.array([0, 7, 15, 200], np.uint8), np.arange(300, dtype=np.uint16), -20, False),
    (np.array([-128, -1, 100, 127], np.int8), np.arange(256, dtype=np.uint16), -128, True),
    (np.array([-128, -1, 100, 127], np.int8), np.arange(256, dtype=np.uint16), -128, False),
    (np.array([-128, -1, 100, 127], np.int8), np.arange(250, dtype=np.uint16), -128, True),
    (np.array([3, 4, 5], np.uint16), np.array([9, 8, 7], np.uint8), 3, True),
]
for arr, lut, first, clip in cases:
    name = f'{arr.dtype} {arr.tolist()} first={first} len={len(lut)} clip={clip}'
    try:
        got = apply_lut(arr, lut, first, clip=clip).ravel().tolist()
        if got != ref(arr, lut, first, clip):
            bad.append(f'{name}: got {got}, expected {ref(arr, lut, first, clip)}')
    except Exception as e:
        bad.append(f'{name}: raises {type(e).__name__}: {e}')
for b in bad: print('D74 present:', b)
sys.exit(1 if bad else 0)
