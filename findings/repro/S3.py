# S3: ImageFileReader.read_frame_raw bound check is `index > number_of_frames`.
# Property probed: index == number_of_frames (one past the end, zero-based) must raise,
# never return bytes. Exit 1 only if bytes come back.
import sys, warnings, io, glob
warnings.filterwarnings('ignore')
sys.path.insert(0, sys.argv[1] + '/src'); sys.path.insert(0, '/root/scratch/probe')
import stubmods; stubmods.install()
import pydicom
from highdicom.io import ImageFileReader

bad = []
files = ['ct_image.dcm', 'sm_image.dcm', 'sm_image_jpegls.dcm', 'seg_image_sm_dots.dcm',
         'seg_image_ct_binary.dcm', 'sm_image_numbers.dcm']
for f in files:
    p = sys.argv[1] + '/data/test_files/' + f
    try:
        with ImageFileReader(p) as r:
            n = r.number_of_frames
            for idx in (n, n + 1):
                try:
                    out = r.read_frame_raw(idx)
                    bad.append((f, n, idx, len(out)))
                except Exception as e:
                    print(f, 'frames', n, 'index', idx, '->', type(e).__name__, str(e)[:60])
    except FileNotFoundError:
        print('skip', f)
for b in bad: print('S3 present: read_frame_raw returned bytes for', b)
sys.exit(1 if bad else 0)
