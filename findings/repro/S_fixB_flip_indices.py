# OTHER SUSPECT (not in D1..D38): spatial._transform_affine_matrix(flip_indices=...)
# computes the origin shift as A^T @ (enable * (shape - 1)) instead of
# A @ (enable * (shape - 1)). Private helper; no caller in src passes flip_indices.
import sys
sys.path.insert(0, sys.argv[1] + '/src')
import numpy as np
from highdicom.spatial import _transform_affine_matrix

rng = np.random.RandomState(1)
A = np.eye(4)
A[:3, :] = rng.uniform(-3, 3, (3, 4))
out = _transform_affine_matrix(A, (3, 4, 5), flip_indices=[True, False, False])
exp_origin = A @ np.array([2.0, 0.0, 0.0, 1.0])  # new (0,0,0) is old (2,0,0)
if not np.allclose(out[:, 3], exp_origin):
    print('flip_indices: origin', out[:3, 3], 'expected', exp_origin[:3])
    sys.exit(1)
sys.exit(0)
