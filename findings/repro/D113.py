"""D113 (C01, open): tile_pixel_array=True references source frames by row-major tile index.
usage: /venv/bin/python D113.py [repo]   exit 1 while the defect exists"""
import sys
repo = sys.argv[1] if len(sys.argv) > 1 else '/repo'
sys.path[:0] = [repo + '/src', '/verif/harness']
import stub_modules; stub_modules.install()
import numpy as np, synth
sm = synth.sm_tiled(4, 6, 2, 3, tiled_full=False)
sm.PerFrameFunctionalGroupsSequence = list(sm.PerFrameFunctionalGroupsSequence)[::-1]
m = np.zeros((1, 4, 6), np.uint8); m[0, 0, 0] = 1        # lies under source frame 4
seg = synth.make_seg([sm], m, 'BINARY', [1], tile_pixel_array=True, omit_empty_frames=False)
a = seg.get_pixels_by_source_frame(sm.SOPInstanceUID, [1, 2, 3, 4])
got = [int(a[k].sum()) for k in range(4)]
print(got, 'expected [0, 0, 0, 1]')
sys.exit(0 if got == [0, 0, 0, 1] else 1)
