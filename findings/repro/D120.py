"""D120 (C20, fixed): a tiled ParametricMap built with explicit plane positions wrote the total pixel matrix origin
offsets as raw floats, so a 16-character source offset like '.123456789012345' became a 17-character DS in the file.
usage: /venv/bin/python D120.py [repo]   exit 1 while the defect exists"""
import sys
repo = sys.argv[1] if len(sys.argv) > 1 else '/repo'
sys.path[:0] = [repo + '/src', '/verif/harness']
import stub_modules; stub_modules.install()
import numpy as np, synth, c03, highdicom as hd
sm = synth.sm_tiled(4, 4, 2, 2, tiled_full=False, samples=3, origin=(0.123456789012345, 7.1), spacing=(0.5, 0.5))
pps = [hd.PlanePositionSequence('SLIDE', image_position=(0.123456789012345 + 0, 7.1, 0.0), pixel_matrix_position=(1, 1)),
       hd.PlanePositionSequence('SLIDE', image_position=(0.123456789012345 + 1, 7.1, 0.0), pixel_matrix_position=(3, 1))]
pm = c03._pm_make([sm], np.ones((2, 2, 2), np.uint16), plane_positions=pps)
o = pm.TotalPixelMatrixOriginSequence[0]
bad = [(k, str(o[k].value)) for k in ('XOffsetInSlideCoordinateSystem', 'YOffsetInSlideCoordinateSystem',
                                     'ZOffsetInSlideCoordinateSystem') if len(str(o[k].value)) > 16]
print('over-long DS values:', bad)
sys.exit(1 if bad else 0)
