import sys
sys.path.insert(0, sys.argv[1] + '/src')
import numpy as np
from highdicom.content import LUT

data = np.arange(2**16, dtype=np.uint16)
lut = LUT(first_mapped_value=0, lut_data=data)
if lut.LUTDescriptor[0] != 0 or lut.number_of_entries != 2**16:
    print('FAIL: descriptor of a 65536 entry LUT is wrong', lut.LUTDescriptor)
    sys.exit(1)
try:
    out = lut.lut_data
except Exception as e:
    print('FAIL: lut_data of a 65536-entry LUT raised:', repr(e))
    sys.exit(1)
if not np.array_equal(out, data):
    print('FAIL: lut_data does not round trip')
    sys.exit(1)
print('ok')
