# C08: Volume.__getitem__ with a 4th tuple item re-indexes the CHANNEL axis of the array but keeps the
# channel table, so channel values end up labelled with the wrong descriptor value; the geometry object
# accepts what the volume refuses.  (volume.py _prepare_getitem_index never limits len(index) to 3.)
import sys; sys.path.insert(0, '/repo/src')
import numpy as np
from highdicom.volume import Volume
a = np.arange(16).reshape(2, 2, 2, 2)
v = Volume(a, np.eye(4), 'PATIENT', channels={'SegmentNumber': [1, 2]})
w = v[:, :, :, ::-1]                                    # accepted
print(w.get_channel_values('SegmentNumber'))            # [1, 2]  (table untouched)
print(v.get_channel(SegmentNumber=1).array[0, 0, 0],    # 0
      w.get_channel(SegmentNumber=1).array[0, 0, 0])    # 1  <- same voxel, same channel, other value
g = v.get_geometry()
print(g[:, :, :, ::2].spatial_shape)                    # geometry accepts (2, 2, 2) ...
try: v[:, :, :, ::2]
except ValueError as e: print('volume refuses:', e)     # ... what the volume refuses
