# lazily read image: the cached pixel_array is never re-validated against the header
import sys; sys.path[:0] = ['/repo/src', '/verif/harness']
import stub_modules; stub_modules.install()
import io, numpy as np, highdicom as hd, synth
ds = synth.base('sm_image.dcm'); ds.Rows, ds.Columns, ds.NumberOfFrames = 1, 2, 2
ds.SamplesPerPixel, ds.PhotometricInterpretation = 1, 'MONOCHROME2'
ds.BitsAllocated, ds.BitsStored, ds.HighBit, ds.PixelRepresentation = 16, 16, 15, 0
for kw in ('PlanarConfiguration', 'PerFrameFunctionalGroupsSequence'):
    if kw in ds: delattr(ds, kw)
ds.PixelData = np.array([65535, 1, 2, 3], '<u2').tobytes()
b = io.BytesIO(); ds.save_as(b); data = b.getvalue()
a, c = hd.imread(data, lazy_frame_retrieval=True), hd.imread(data, lazy_frame_retrieval=True)
a.pixel_array                                   # only difference between a and c
a.PixelRepresentation = c.PixelRepresentation = 1
print(a.get_stored_frame(1), c.get_stored_frame(1))   # [[65535 1]] uint16  vs  [[-1 1]] int16
e = hd.imread(data); e.pixel_array; e.PixelRepresentation = 1
print(e.get_stored_frame(1), e.pixel_array[0])        # eager image: [[-1 1]] both (pydicom revalidates)
