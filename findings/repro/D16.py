import sys
sys.path.insert(0, sys.argv[1] + '/src')
import numpy as np
from highdicom.volume import Volume

arr = np.arange(2 * 3 * 4 * 2, dtype=np.float32).reshape(2, 3, 4, 2)
vol = Volume(
    array=arr,
    affine=np.eye(4),
    coordinate_system='PATIENT',
    channels={'OpticalPathIdentifier': ['a', 'b']},
)
try:
    cp = vol.copy()
except Exception as e:
    print('D16: Volume.copy() raised', type(e).__name__, e)
    sys.exit(1)
ok = (
    cp.shape == vol.shape
    and np.array_equal(cp.array, vol.array)
    and cp.channel_descriptors == vol.channel_descriptors
    and cp.get_channel_values('OpticalPathIdentifier') == ['a', 'b']
)
if not ok:
    print('D16: copy differs from original')
    sys.exit(1)
sys.exit(0)
