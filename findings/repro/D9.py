import sys, io, copy, warnings
warnings.filterwarnings('ignore')
root = sys.argv[1]
sys.path.insert(0, root + '/src')
sys.path.insert(0, '/root/scratch/probe')
import stubmods; stubmods.install()
import numpy as np, pydicom, highdicom as hd
from pydicom.pixels import apply_modality_lut, apply_voi_lut

ds = pydicom.dcmread(root + '/data/test_files/ct_image.dcm')
for kw in ['WindowCenter', 'WindowWidth', 'VOILUTFunction', 'RescaleType']:
    if kw in ds:
        delattr(ds, kw)
ds.Rows, ds.Columns = 2, 4
ds.PixelRepresentation = 0
ds.BitsAllocated, ds.BitsStored, ds.HighBit = 16, 16, 15
px = np.array([[0, 1, 2, 3], [4, 5, 6, 7]], dtype=np.uint16)
ds.PixelData = px.tobytes()
ds.RescaleSlope = 1.5        # non-integer slope, integer intercept
ds.RescaleIntercept = 0.0
ds.PhotometricInterpretation = 'MONOCHROME2'
lut = hd.LUT(first_mapped_value=0, lut_data=(np.arange(16, dtype=np.uint16) ** 2))
ds.VOILUTSequence = [lut]
buf = io.BytesIO(); ds.save_as(buf)
im = hd.imread(buf.getvalue())
try:
    got = im.get_frame(1, apply_voi_transform=True, apply_real_world_transform=False, apply_presentation_lut=False)
except ValueError as e:
    print('ok (refused):', e)
    sys.exit(0)
# Not refused: then it has to agree with the stage-by-stage pipeline
exp = apply_voi_lut(apply_modality_lut(px, ds), ds).astype(np.float64)
exp = (exp - lut.lut_data.min()) / (lut.lut_data.max() - lut.lut_data.min())
if not np.allclose(got, exp):
    print('FAIL: non-integer RescaleSlope with a VOI LUT neither refused nor right')
    print(' got     ', np.round(got.ravel(), 4))
    print(' expected', np.round(exp.ravel(), 4))
    sys.exit(1)
print('ok')
