"""D117 (C01, fixed): a 3-D float mask for a LABELMAP whose only described segment is numbered 5 was stored as label 1.
usage: /venv/bin/python D117.py [repo]   exit 1 while the defect exists"""
import sys
repo = sys.argv[1] if len(sys.argv) > 1 else '/repo'
sys.path[:0] = [repo + '/src', '/verif/harness']
import stub_modules; stub_modules.install()
import numpy as np, synth
src = synth.ct_series(2, 3, 4)
m = np.zeros((2, 3, 4), np.float32); m[0, 1, 2] = 1; m[1, 0, 0] = 1
try:
    seg = synth.make_seg(src, m, 'LABELMAP', [5])
except ValueError as e:
    print('refused:', e); sys.exit(0)
got = int(seg.get_pixels_by_source_instance([s.SOPInstanceUID for s in src], segment_numbers=[5]).sum())
print('stored values', np.unique(seg.pixel_array), 'segment 5 total', got, 'expected 2')
sys.exit(0 if got == 2 else 1)
