# D55: VOI LUT folded through a NEGATIVE integer rescale slope: voi_scaled_lut_data[::slope]
# reverses the table but the first mapped value is computed for the un-reversed one -> wrong output.
import sys
sys.path.insert(0, '/root/scratch/repro'); import _fixF_img as H
H.setup(sys.argv[1])
import numpy as np, highdicom as hd
from pydicom.dataset import Dataset
px = np.arange(12, dtype=np.uint16).reshape(3, 4)
lut_data = np.array([0, 5, 9, 20, 33, 47, 60, 80, 100, 130, 170, 255], np.uint16)
first = -8
def voi_item():
    it = Dataset(); it.LUTDescriptor = [len(lut_data), first, 16]; it.LUTData = lut_data.tobytes()
    it['LUTDescriptor'].VR = 'SS'; it['LUTData'].VR = 'OW'
    return it
bad = []
for slope, intercept in ((-1.0, 2.0), (-2.0, 3.0), (-2.0, 2.0), (1.0, -8.0), (2.0, -8.0)):
    im = H.make(sys.argv[1], px, RescaleSlope=slope, RescaleIntercept=intercept, RescaleType='US',
                VOILUTSequence=[voi_item()])
    x = slope * px.astype(np.float64) + intercept
    idx = np.clip(x - first, 0, len(lut_data) - 1).astype(int)
    try:
        got = im.get_frame(1, apply_voi_transform=True, apply_real_world_transform=False)
    except ValueError as e:
        if slope > 0: bad.append(f'slope {slope}: refused: {e}')
        continue
    # compare orderings: result must be a monotone function of lut value at the modality value
    ref = lut_data[idx].astype(np.float64)
    a = (ref - lut_data.min()) / (lut_data.max() - lut_data.min())
    if not np.allclose(got, a, atol=1e-6):
        bad.append(f'slope {slope}, intercept {intercept}: got {np.round(got.ravel(), 3)} expected {np.round(a.ravel(), 3)}')
for b in bad: print('D55 present:', b)
sys.exit(1 if bad else 0)
