"""D18: ContentSequence.extend indexes every item twice (find returns duplicates)."""
import sys
sys.path.insert(0, sys.argv[1] + '/src')
from pydicom.sr.codedict import codes
from highdicom.sr import ContentSequence, TextContentItem

a = TextContentItem(name=codes.DCM.Finding, value='a', relationship_type='CONTAINS')
b = TextContentItem(name=codes.DCM.Finding, value='b', relationship_type='CONTAINS')
seq = ContentSequence()
seq.extend([a, b])
found = seq.find(codes.DCM.Finding)
if len(seq) != 2 or len(found) != 2:
    print(f'D18 present: len(seq)={len(seq)}, len(find)={len(found)} (expected 2)')
    sys.exit(1)
del seq[0]
found = seq.find(codes.DCM.Finding)
if [x.value for x in found] != ['b']:
    print(f'D18 present: after delete find={[x.value for x in found]}')
    sys.exit(1)
sys.exit(0)
