import sys; sys.path[:0] = ['/repo/src', '/verif/harness']
import stub_modules; stub_modules.install()
import io, numpy as np, pydicom, highdicom as hd
from pydicom.sr.codedict import codes
from highdicom.seg.content import DimensionIndexSequence
sm = pydicom.dcmread('/repo/data/test_files/sm_image.dcm')            # 50 x 50 total pixel matrix, 25 tiles of 10 x 10
pps = DimensionIndexSequence('SLIDE').get_plane_positions_of_image(sm)
tiles = np.arange(25 * 100, dtype=np.uint16).reshape(25, 10, 10) % 1000
m = hd.pm.RealWorldValueMapping('1', 'f', codes.UCUM.NoUnits, [0, 1000], intercept=0, slope=1)
order = list(range(25))[::-1]                                          # the same tiles, listed last to first
pm = hd.pm.ParametricMap([sm], tiles[order], hd.UID(), 1, hd.UID(), 1, 'm', 'mm', '1', '1', False, [m], 500., 1000.,
                         plane_positions=[pps[i] for i in order])
print(sm.TotalPixelMatrixRows, sm.TotalPixelMatrixColumns, '->', pm.TotalPixelMatrixRows, pm.TotalPixelMatrixColumns)
b = io.BytesIO(); pm.save_as(b); im = hd.imread(b.getvalue())
print(im.get_volume_geometry().spatial_shape)      # (1, 51, 51): one row / column more than the data covers
im.get_total_pixel_matrix()                        # RuntimeError: frames are missing from the image
