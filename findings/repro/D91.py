"""D91 (C07): encode_frame wrote non-native (big-endian) arrays byte-swapped for native transfer syntaxes.
usage: PYTHONPATH=/repo/src /venv/bin/python D91.py   -> prints OK when fixed, FAIL otherwise"""
import numpy as np
from highdicom.frame import encode_frame, decode_frame
a = np.array([[-32768, 300, 1]], dtype='>i2')
ts = '1.2.840.10008.1.2.1'
v = encode_frame(a, ts, 16, 16, 'MONOCHROME2', 1, None)
d = decode_frame(v, ts, 1, 3, 1, 16, 16, 'MONOCHROME2', 1, None)
print('OK' if np.array_equal(d, a) else f'FAIL decode(encode(x)) = {d.tolist()} for x = {a.tolist()}')
