"""D27: WAVEFORM content items cannot be parsed back, and the channel accessor reads the wrong attribute."""
import sys
sys.path.insert(0, sys.argv[1] + '/src')
from copy import deepcopy
from pydicom.dataset import Dataset
from pydicom.sr.codedict import codes
from highdicom.sr import ContentSequence, WaveformContentItem

w = WaveformContentItem(
    name=codes.DCM.Finding,
    referenced_sop_class_uid='1.2.840.10008.5.1.4.1.1.9.1.1',
    referenced_sop_instance_uid='1.2.3.4',
    referenced_waveform_channels=[(1, 2), (1, 3)],
    relationship_type='CONTAINS',
)
fails = []
if w.referenced_waveform_channels != [(1, 2), (1, 3)]:
    fails.append(f'referenced_waveform_channels = {w.referenced_waveform_channels!r}')
plain = Dataset()
for elem in deepcopy(w):
    plain.add(elem)
try:
    r = WaveformContentItem.from_dataset(plain)
    if r.value != w.value or r.referenced_waveform_channels != [(1, 2), (1, 3)]:
        fails.append('from_dataset read back different content')
except Exception as e:
    fails.append(f'from_dataset: {type(e).__name__}: {str(e).splitlines()[0]}')
try:
    seq = ContentSequence.from_sequence([plain])
    if not isinstance(seq[0], WaveformContentItem):
        fails.append(f'from_sequence produced {type(seq[0]).__name__}')
except Exception as e:
    fails.append(f'ContentSequence.from_sequence: {type(e).__name__}: {e}')
if fails:
    print('D27 present:', *fails, sep='\n  ')
    sys.exit(1)
sys.exit(0)
