"""D26: templates._count_roi_items rejects containers named "Measurement Group"."""
import sys
sys.path.insert(0, sys.argv[1] + '/src')
from pydicom.sr.codedict import codes
from highdicom.sr import ContainerContentItem, TextContentItem, ContentSequence
from highdicom.sr.templates import _count_roi_items, _contains_planar_rois

def group(name):
    g = ContainerContentItem(name=name, relationship_type='CONTAINS')
    g.ContentSequence = ContentSequence([
        TextContentItem(name=codes.DCM.TrackingIdentifier, value='x',
                        relationship_type='HAS OBS CONTEXT')
    ])
    return g

fails = []
try:
    counts = _count_roi_items(group(codes.DCM.MeasurementGroup))
    if counts != (0, 0, 0, 0, 0) or _contains_planar_rois(group(codes.DCM.MeasurementGroup)):
        fails.append(f'unexpected counts {counts}')
except ValueError as e:
    fails.append(f'genuine "Measurement Group" container rejected: {e}')
try:
    _count_roi_items(group(codes.DCM.ImagingMeasurements))
    fails.append('container not named "Measurement Group" accepted')
except ValueError:
    pass
if fails:
    print('D26 present:', *fails, sep='\n  ')
    sys.exit(1)
sys.exit(0)
