"""Shared setup for fixA repro scripts: call setup(path) first."""
import sys, warnings, copy, logging
def setup(path):
    warnings.filterwarnings('ignore'); logging.disable(logging.CRITICAL)
    sys.path.insert(0, path + '/src'); sys.path.insert(0, '/root/scratch/probe')
    import stubmods; stubmods.install()
    import numpy as np, pydicom, highdicom as hd
    from pydicom.sr.codedict import codes
    base = pydicom.dcmread(path + '/data/test_files/ct_image.dcm')
    def mk(i, rows, cols):
        ds = copy.deepcopy(base); ds.Rows = rows; ds.Columns = cols
        ds.SOPInstanceUID = hd.UID()
        ds.ImagePositionPatient = [0.0, 0.0, float(i) * 2.5]
        ds.ImageOrientationPatient = [1, 0, 0, 0, 1, 0]; ds.PixelSpacing = [1.0, 1.0]
        ds.PixelData = np.zeros((rows, cols), np.int16).tobytes(); return ds
    def desc(n):
        return hd.seg.SegmentDescription(
            segment_number=n, segment_label=f's{n}',
            segmented_property_category=codes.SCT.Tissue,
            segmented_property_type=codes.SCT.Tissue, algorithm_type='MANUAL')
    def seg(src, arr, typ, segs, **kw):
        return hd.seg.Segmentation(src, arr, typ, [desc(n) for n in segs], hd.UID(), 1,
                                   hd.UID(), 1, 'm', 'mm', '1', 'sn', **kw)
    return np, pydicom, hd, mk, desc, seg
