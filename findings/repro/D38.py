"""D38: TcoordContentItem.value returns a scalar rather than a one-element list for a single time point."""
import sys, datetime
sys.path.insert(0, sys.argv[1] + '/src')
from pydicom.sr.codedict import codes
from highdicom.sr import TcoordContentItem

dt = datetime.datetime(2020, 1, 2, 3, 4, 5)
fails = []
for kw, arg in (
    ('referenced_sample_positions', [5]),
    ('referenced_time_offsets', [1.5]),
    ('referenced_date_time', [dt]),
    ('referenced_sample_positions', [5, 9]),
    ('referenced_time_offsets', [1.5, 2.5]),
    ('referenced_date_time', [dt, dt + datetime.timedelta(seconds=1)]),
):
    item = TcoordContentItem(
        name=codes.DCM.Finding, temporal_range_type='POINT',
        relationship_type='CONTAINS', **{kw: arg},
    )
    v = item.value
    try:
        ok = len(v) == len(arg) and all(a == b for a, b in zip(v, arg))
    except TypeError:
        ok = False
    if not ok:
        fails.append(f'{kw}={arg!r}: value = {v!r} ({type(v).__name__})')
if fails:
    print('D38 present:', *fails, sep='\n  ')
    sys.exit(1)
sys.exit(0)
