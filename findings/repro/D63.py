# D63: ContentSequence.__init__ applies a stricter per-item rule than append/insert/__setitem__;
# an item __init__ would refuse can enter through the mutators, after which find()/get_nodes()
# (which re-run __init__ on their result) raise instead of returning it.
import sys, warnings
warnings.filterwarnings('ignore')
sys.path.insert(0, sys.argv[1] + '/src')
from pydicom.sr.codedict import codes
from highdicom.sr import ContentSequence, TextContentItem, ContainerContentItem
bad = []
def text(rel): return TextContentItem(name=codes.DCM.Finding, value='x', relationship_type=rel)
def cont(rel): return ContainerContentItem(name=codes.DCM.Finding, relationship_type=rel)
def mutators(mk_seq, item, filler):
    def a(): s = mk_seq(); s.append(item); return s
    def i(): s = mk_seq(); s.insert(0, item); return s
    def e(): s = mk_seq(); s.extend([item]); return s
    def p(): s = mk_seq(); s += [item]; return s
    def si(): s = mk_seq(); s.append(filler()); s[0] = item; return s
    def ss(): s = mk_seq(); s.append(filler()); s[0:1] = [item]; return s
    return {'append': a, 'insert': i, 'extend': e, '+=': p, 'setitem': si, 'setslice': ss}
cases = [
    ('root/non-container', dict(is_root=True), lambda: text(None), lambda: cont(None)),
    ('root/with-relationship', dict(is_root=True), lambda: cont('CONTAINS'), lambda: cont(None)),
    ('non-sr/with-relationship', dict(is_sr=False), lambda: text('CONTAINS'), lambda: text(None)),
    ('sr/no-relationship', dict(), lambda: text(None), lambda: text('CONTAINS')),
]
for label, kw, mk_item, filler in cases:
    item = mk_item()
    try:
        ContentSequence([item], **kw); init_ok = True
    except (TypeError, AttributeError):
        init_ok = False
    for name, fn in mutators(lambda: ContentSequence(**kw), item, filler).items():
        try:
            s = fn()
        except (TypeError, AttributeError):
            continue
        if not init_ok:
            msg = f'{label}: {name} accepted an item that __init__ refuses'
            try:
                s.find(item.name); s.get_nodes()
            except Exception as ex:
                msg += f'; afterwards find/get_nodes raise {type(ex).__name__}'
            bad.append(msg)
# valid items still accepted everywhere
for kw, mk in ((dict(is_root=True), lambda: cont(None)), (dict(is_sr=False), lambda: text(None)), (dict(), lambda: text('CONTAINS'))):
    for name, fn in mutators(lambda: ContentSequence(**kw), mk(), mk).items():
        s = fn(); assert len(s.find(codes.DCM.Finding)) == 1, (kw, name)
for b in bad: print('D63 present:', b)
sys.exit(1 if bad else 0)
