"""D30: _check_code_string accepts a value with a trailing newline ('$' vs end of string)."""
import sys
sys.path.insert(0, sys.argv[1] + '/src')
from highdicom.valuerep import _check_code_string

fails = []
for bad in ('AB\n', 'A\n', 'ABCDEFGHIJKLMNOP\n'):
    try:
        _check_code_string(bad)
        fails.append(f'{bad!r} accepted')
    except ValueError:
        pass
for good in ('AB', 'A', 'ABCDEFGHIJKLMNOP', 'A_B 1'):
    try:
        _check_code_string(good)
    except ValueError:
        fails.append(f'{good!r} rejected')
if fails:
    print('D30 present:', *fails, sep='\n  ')
    sys.exit(1)
sys.exit(0)
