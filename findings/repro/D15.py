import sys
sys.path.insert(0, sys.argv[1] + '/src')
import numpy as np
from highdicom.volume import Volume

arr = np.arange(6 * 5 * 4, dtype=np.int32).reshape(6, 5, 4)
aff = np.array([[0., 0., 2., 10.], [0., 1.5, 0., -3.], [1., 0., 0., 7.], [0., 0., 0., 1.]])
vol = Volume(arr, aff, coordinate_system='PATIENT')
cases = {
    'prefix [:3]': np.s_[:3],
    'prefix [:, :2, :3]': np.s_[:, :2, :3],
    'strided [::2]': np.s_[::2],
    'strided [:, ::2, ::2]': np.s_[:, ::2, ::2],
    'offset strided [1:5:2, 1:, :]': np.s_[1:5:2, 1:, :],
    'interior [1:4, 2:4, 1:3]': np.s_[1:4, 2:4, 1:3],
    'flipped [::-1, :, ::-2]': np.s_[::-1, :, ::-2],
    'identity': np.s_[:],
}
fail = []
for name, idx in cases.items():
    target = vol[idx]
    try:
        out = vol.match_geometry(target.get_geometry())
    except Exception as e:
        fail.append(f'{name}: raised {type(e).__name__}: {e}')
        continue
    if out.spatial_shape != target.spatial_shape:
        fail.append(f'{name}: shape {out.spatial_shape} != {target.spatial_shape}')
    elif not (out.geometry_equal(target) and np.array_equal(out.array, target.array)):
        fail.append(f'{name}: geometry/array mismatch')
if fail:
    print('D15:', '; '.join(fail))
    sys.exit(1)
sys.exit(0)
