# D53: modality LUT + VOI LUT: effective LUT = voi_lut.apply(modality_lut.lut_data) gives raw VOI
# LUT values: voi_output_range is ignored and presentation inversion (MONOCHROME1 / INVERSE) is
# never applied, unlike the rescale + VOI LUT branch.
import sys
sys.path.insert(0, '/root/scratch/repro'); import _fixF_img as H
H.setup(sys.argv[1])
import numpy as np, highdicom as hd
from pydicom.dataset import Dataset
px = np.arange(12, dtype=np.uint16).reshape(3, 4)
voi_data = np.array([0, 5, 9, 20, 33, 47, 60, 80, 100, 130, 170, 255, 300, 310, 320, 400], np.uint16)
voi_first = 3
def lut_item(data, first, **kw):
    it = Dataset(); it.LUTDescriptor = [len(data), first, 16]; it['LUTDescriptor'].VR = 'US'
    it.LUTData = np.asarray(data, np.uint16).tobytes(); it['LUTData'].VR = 'OW'
    for k, v in kw.items(): setattr(it, k, v)
    return it
# modality LUT equivalent to x -> x + 3 on the stored values 0..11
mod_data = np.arange(12) + 3
bad = []
for pi in ('MONOCHROME2', 'MONOCHROME1'):
    for rngo in ((0.0, 1.0), (-1.0, 3.0)):
        im_lut = H.make(sys.argv[1], px, PhotometricInterpretation=pi,
                        ModalityLUTSequence=[lut_item(mod_data, 0, ModalityLUTType='US')],
                        VOILUTSequence=[lut_item(voi_data, voi_first)])
        im_res = H.make(sys.argv[1], px, PhotometricInterpretation=pi, RescaleSlope=1.0,
                        RescaleIntercept=3.0, RescaleType='US',
                        VOILUTSequence=[lut_item(voi_data, voi_first)])
        kw = dict(apply_voi_transform=True, voi_output_range=rngo, apply_real_world_transform=False)
        ref = im_res.get_frame(1, **kw)
        got = im_lut.get_frame(1, **kw)
        v = voi_data[(px + 3 - voi_first)].astype(float)
        exp = (v - voi_data.min()) / (voi_data.max() - voi_data.min())
        if pi == 'MONOCHROME1': exp = 1 - exp
        exp = exp * (rngo[1] - rngo[0]) + rngo[0]
        assert np.allclose(ref, exp, atol=1e-6), (ref, exp)
        if not np.allclose(got, exp, atol=1e-6):
            bad.append(f'{pi}, output range {rngo}: modality LUT + VOI LUT gives {np.round(got.ravel()[:5], 3)}, '
                       f'expected {np.round(exp.ravel()[:5], 3)} (as the equivalent rescale + VOI LUT)')
for b in bad: print('D53 present:', b)
sys.exit(1 if bad else 0)
