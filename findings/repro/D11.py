import sys, io, warnings
warnings.filterwarnings('ignore')
root = sys.argv[1]
sys.path.insert(0, root + '/src')
sys.path.insert(0, '/root/scratch/probe')
import stubmods; stubmods.install()
import numpy as np, pydicom, highdicom as hd
from pydicom.pixels import apply_modality_lut, apply_voi_lut

fail = []
for (m, b, first, n) in [(2.0, 0.0, 0, 6), (3.0, -3.0, 3, 8), (2.0, 0.0, 0, 7), (4.0, 4.0, 8, 6)]:
    ds = pydicom.dcmread(root + '/data/test_files/ct_image.dcm')
    for kw in ['WindowCenter', 'WindowWidth', 'VOILUTFunction']:
        if kw in ds:
            delattr(ds, kw)
    ds.Rows, ds.Columns = 2, 5
    ds.PixelRepresentation = 0
    ds.BitsAllocated, ds.BitsStored, ds.HighBit = 16, 16, 15
    px = np.arange(10, dtype=np.uint16).reshape(2, 5)
    ds.PixelData = px.tobytes()
    ds.RescaleSlope, ds.RescaleIntercept = m, b
    ds.PhotometricInterpretation = 'MONOCHROME2'
    lut = hd.LUT(first_mapped_value=first, lut_data=(np.arange(n, dtype=np.uint16) + 1) ** 2)
    ds.VOILUTSequence = [lut]
    buf = io.BytesIO(); ds.save_as(buf)
    im = hd.imread(buf.getvalue())
    got = im.get_frame(1, apply_voi_transform=True, apply_real_world_transform=False)
    # stage by stage: modality rescale, then the VOI LUT on the rescaled value
    exp = apply_voi_lut(apply_modality_lut(px, ds), ds).astype(np.float64)
    lo, hi = float(lut.lut_data.min()), float(lut.lut_data.max())
    exp = (exp - lo) / (hi - lo)
    if not np.allclose(got, exp):
        fail.append(f'slope={m} intercept={b} first={first} entries={n}:\n'
                    f'    got      {np.round(got.ravel(), 3)}\n    expected {np.round(exp.ravel(), 3)}')
if fail:
    print('FAIL: VOI LUT folded through rescale differs from rescale-then-LUT')
    print('  ' + '\n  '.join(fail))
    sys.exit(1)
print('ok')
