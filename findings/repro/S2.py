# S2: seg DimensionIndexSequence.get_plane_positions_of_series for single-frame (non-tiled)
# SLIDE images: origin is computed as  0 - (centre + M.(C/2, R/2))  instead of
# centre - M.((C-1)/2, (R-1)/2): the slide centre is negated.
import sys, warnings
warnings.filterwarnings('ignore')
sys.path.insert(0, sys.argv[1] + '/src'); sys.path.insert(0, '/root/scratch/probe')
import stubmods; stubmods.install()
import numpy as np
from pydicom.dataset import Dataset
from highdicom.seg.content import DimensionIndexSequence
from highdicom.spatial import ImageToReferenceTransformer

img = Dataset()
img.SOPClassUID = '1.2.840.10008.5.1.4.1.1.77.1.3'  # VL Slide-Coordinates Microscopic Image (single frame)
img.Rows, img.Columns = 100, 200
img.PixelSpacing = [0.01, 0.01]
img.ImageOrientationSlide = [0.0, 1.0, 0.0, 1.0, 0.0, 0.0]
c = Dataset()
c.XOffsetInSlideCoordinateSystem = 20.0
c.YOffsetInSlideCoordinateSystem = 30.0
c.ZOffsetInSlideCoordinateSystem = 0.0
img.ImageCenterPointCoordinatesSequence = [c]
pp = DimensionIndexSequence('SLIDE').get_plane_positions_of_series([img])[0][0]
origin = np.array([float(pp.XOffsetInSlideCoordinateSystem), float(pp.YOffsetInSlideCoordinateSystem),
                   float(pp.ZOffsetInSlideCoordinateSystem)])
# property: the image centre computed from the reported origin must be the stated centre
# (this is exactly how Segmentation.__init__ derives ImageCenterPointCoordinatesSequence)
t = ImageToReferenceTransformer(image_position=origin, image_orientation=img.ImageOrientationSlide,
                                pixel_spacing=img.PixelSpacing)
centre = t(np.array([[img.Columns / 2, img.Rows / 2]], float))[0]
want = np.array([20.0, 30.0, 0.0])
print('origin', origin.tolist(), 'centre from origin', centre.tolist(), 'stated centre', want.tolist())
if np.abs(centre - want).max() > 0.011:   # tolerate a one-pixel convention difference
    print('S2 present: plane position of non-tiled slide image is off by', (centre - want).tolist(), 'mm')
    sys.exit(1)
sys.exit(0)
