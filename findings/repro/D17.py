"""D17: ContentSequence.__setitem__: int index always raises TypeError; slice
assignment bypasses the name index and the relationship-type rules."""
import sys
sys.path.insert(0, sys.argv[1] + '/src')
from pydicom.sr.codedict import codes
from highdicom.sr import ContentSequence, TextContentItem

def T(name, v, rel='CONTAINS'):
    return TextContentItem(name=name, value=v, relationship_type=rel)

F, D = codes.DCM.Finding, codes.DCM.Derivation
fails = []
def check(seq, tag):
    for name in (F, D):
        want = sorted(x.value for x in seq if x.name == name)
        got = sorted(x.value for x in seq.find(name))
        if want != got:
            fails.append(f'{tag}: find({name.meaning}) = {got}, sequence has {want}')
    for pos, x in enumerate(seq):
        if x not in seq or seq.index(x) != pos:
            fails.append(f'{tag}: index/in wrong for item {x.value}')

a, b, c, d = T(F, 'a'), T(D, 'b'), T(F, 'c'), T(D, 'd')
seq = ContentSequence([a, b])
try:
    seq[0] = c
    check(seq, 'int setitem')
    if a in seq:
        fails.append('int setitem: replaced item still "in" sequence')
except TypeError as e:
    fails.append(f'int setitem raised TypeError: {e}')
seq = ContentSequence([a, b])
seq[0:1] = [c, d]
check(seq, 'slice setitem')
seq = ContentSequence([a, b])
try:
    seq[0:1] = [T(F, 'norel', rel=None)]
    fails.append('slice setitem accepted item without relationship type')
except AttributeError:
    check(seq, 'rejected slice setitem')
if fails:
    print('D17 present:', *fails, sep='\n  ')
    sys.exit(1)
sys.exit(0)
