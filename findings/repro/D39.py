# D39 (was S1): Image.get_stored_frame passes BitsAllocated as bits_stored to the decoder
# (image.py ~947, ~1344, ~1427). For BitsStored < BitsAllocated the stored values
# decoded by highdicom differ from the stored values pydicom decodes from the same
# dataset whenever the bits above HighBit are not already the sign extension / zero.
import sys, warnings, io
warnings.filterwarnings('ignore')
sys.path.insert(0, sys.argv[1] + '/src'); sys.path.insert(0, '/root/scratch/probe')
import stubmods; stubmods.install()
import numpy as np, pydicom, highdicom as hd
from pydicom.uid import ExplicitVRLittleEndian

bad = []
def check(tag, ds):
    b = io.BytesIO(); ds.save_as(b)
    ref = pydicom.dcmread(io.BytesIO(b.getvalue())).pixel_array
    for lazy in (False, True):
        im = hd.imread(io.BytesIO(b.getvalue()), lazy_frame_retrieval=lazy)
        got = im.get_stored_frame(1)
        if not np.array_equal(got, ref):
            bad.append((tag, 'lazy' if lazy else 'eager', ref.ravel()[:4].tolist(), got.ravel()[:4].tolist()))

ds = pydicom.dcmread(sys.argv[1] + '/data/test_files/ct_image.dcm')
ds.file_meta.TransferSyntaxUID = ExplicitVRLittleEndian
ds.Rows, ds.Columns = 2, 4
ds.BitsAllocated, ds.BitsStored, ds.HighBit = 16, 12, 11
# (a) signed 12-bit values whose unused high nibble is zero (legal: bits above HighBit are unspecified)
ds.PixelRepresentation = 1
vals = np.array([-1, -2048, 2047, 5, -7, 0, 100, -100], np.int16)
ds.PixelData = (vals.astype(np.uint16) & 0x0FFF).tobytes()
check('signed 12in16 native, high bits zero', ds)
# (b) unsigned 12-bit with junk (e.g. legacy overlay) in the 4 unused bits
ds.PixelRepresentation = 0
u = np.array([1, 2, 3, 4095, 0, 7, 8, 9], np.uint16)
ds.PixelData = (u | 0xA000).tobytes()
check('unsigned 12in16 native, overlay bits set', ds)
for x in bad: print('D39 present:', x)
sys.exit(1 if bad else 0)
