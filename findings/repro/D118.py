import sys
repo = sys.argv[1] if len(sys.argv) > 1 else '/repo'
sys.path[:0] = [repo + '/src', '/verif/harness']
import stub_modules; stub_modules.install()
import c05, highdicom as hd
c = dict(bits=8,bs=8,signed=0,spp=1,rows=4,cols=2,n=3,ts='explicit',single_iod=False,pd=bytes(range(24)).hex(),planar=0)
data = c05._file_bytes(c05._native_ds(c))
out = {}
for lazy in (False, True):
    im = hd.imread(data, lazy_frame_retrieval=lazy); im.Rows = 2
    out[lazy] = [im.get_stored_frame(f).ravel().tolist() for f in (1,2,3)]
    print('lazy' if lazy else 'eager', out[lazy])
sys.exit(0 if out[False] == out[True] else 1)
