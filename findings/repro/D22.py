# D22: a 1-element measurement vector must be rejected for a group of 3 annotations,
# not silently broadcast to every annotation.
import sys, warnings
warnings.filterwarnings('ignore')
sys.path.insert(0, sys.argv[1] + '/src'); sys.path.insert(0, '/root/scratch/probe')
import stubmods; stubmods.install()
import numpy as np, highdicom as hd
from pydicom.sr.codedict import codes
from highdicom.ann import AnnotationGroup, Measurements

m = Measurements(codes.SCT.Area, np.array([2.5], np.float32), codes.UCUM.SquareMicrometer)
try:
    got = m.get_values(3)
except (IndexError, ValueError):
    got = None
if got is not None:
    print('D22 present: get_values(3) of a 1-value vector returned', got.tolist()); sys.exit(1)
gd = [np.array([[float(i), 1.0]]) for i in range(3)]
try:
    AnnotationGroup(1, hd.UID(), 'L', codes.SCT.Tissue, codes.SCT.Tissue, 'POINT', gd,
                    'MANUAL', measurements=[m])
except ValueError:
    pass
else:
    print('D22 present: AnnotationGroup accepted 1 measurement value for 3 annotations'); sys.exit(1)
# sanity: correct-length and sparse vectors still work
v = np.array([1.0, np.nan, 3.0], np.float32)
m2 = Measurements(codes.SCT.Area, v, codes.UCUM.SquareMicrometer)
assert np.array_equal(m2.get_values(3), v, equal_nan=True)
m3 = Measurements(codes.SCT.Area, np.array([4.0], np.float32), codes.UCUM.SquareMicrometer)
assert m3.get_values(1).tolist() == [4.0]
sys.exit(0)
