import sys, io, warnings
warnings.filterwarnings('ignore')
root = sys.argv[1]
sys.path.insert(0, root + '/src')
sys.path.insert(0, '/root/scratch/probe')
import stubmods; stubmods.install()
import numpy as np, pydicom, highdicom as hd

def make(m, b, c, w, fn):
    ds = pydicom.dcmread(root + '/data/test_files/ct_image.dcm')
    ds.Rows, ds.Columns = 2, 5
    ds.PixelRepresentation = 0
    ds.BitsAllocated, ds.BitsStored, ds.HighBit = 16, 16, 15
    px = np.array([[0, 1, 2, 3, 4], [5, 6, 7, 8, 40]], dtype=np.uint16)
    ds.PixelData = px.tobytes()
    ds.RescaleSlope, ds.RescaleIntercept = m, b
    ds.WindowCenter, ds.WindowWidth, ds.VOILUTFunction = c, w, fn
    ds.PhotometricInterpretation = 'MONOCHROME2'
    buf = io.BytesIO(); ds.save_as(buf)
    return hd.imread(buf.getvalue()), px

def window(x, c, w, fn):  # PS3.3 C.11.2.1.2 / C.11.2.1.3, output range (0, 1)
    if fn == 'LINEAR':
        y = (x - (c - 0.5)) / (w - 1) + 0.5
    elif fn == 'LINEAR_EXACT':
        y = (x - c) / w + 0.5
    else:
        return 1.0 / (1.0 + np.exp(-4.0 * (x - c) / w))
    return np.clip(y, 0.0, 1.0)

fail = []
for (m, b, c, w, fn) in [(2.0, 0.0, 8.0, 9.0, 'LINEAR'), (3.0, -5.0, 6.0, 21.0, 'LINEAR'),
                         (0.5, 1.0, 3.0, 4.0, 'LINEAR'), (2.0, 0.0, 8.0, 9.0, 'LINEAR_EXACT'),
                         (2.0, 0.0, 8.0, 9.0, 'SIGMOID')]:
    im, px = make(m, b, c, w, fn)
    got = im.get_frame(1, apply_voi_transform=True, apply_real_world_transform=False)
    exp = window(px.astype(np.float64) * m + b, c, w, fn)   # rescale first, then window
    if not np.allclose(got, exp, atol=1e-9):
        fail.append(f'slope={m} intercept={b} c={c} w={w} {fn}: max abs error '
                    f'{np.abs(got - exp).max():.4f}')
if fail:
    print('FAIL: window folded through rescale differs from rescale-then-window')
    print('  ' + '\n  '.join(fail))
    sys.exit(1)
print('ok')
