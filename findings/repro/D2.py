# D2: LABELMAP combine_segments without relabel must drop every unrequested segment,
# including when exactly one segment is unrequested
import sys
sys.path.insert(0, '/root/scratch/repro')
from _fixA_util import setup
np, pydicom, hd, mk, desc, seg = setup(sys.argv[1])
src = [mk(i, 3, 3) for i in range(2)]
arr = np.zeros((2, 3, 3), np.uint8)
arr[0, 0, 0] = 1; arr[0, 1, 1] = 2; arr[1, 2, 2] = 3; arr[1, 0, 1] = 1
s = seg(src, arr, 'LABELMAP', [1, 2, 3])
uids = [d.SOPInstanceUID for d in src]
got = s.get_pixels_by_source_instance(uids, segment_numbers=[1, 2], combine_segments=True, relabel=False)
exp = np.where(arr == 3, 0, arr)
if not np.array_equal(got, exp):
    print('D2: unrequested segment leaked; values', np.unique(got).tolist(), 'expected', np.unique(exp).tolist())
    sys.exit(1)
sys.exit(0)
