# D73: get_frame(apply_real_world_transform=True) with apply_voi_transform left at None ("only
# when present / not superseded") raised ValueError("... 'apply_modality_transform' cannot be
# False") because use_voi=False set for the required RWVM was overwritten by the VOI tri-state.
import sys
sys.path.insert(0, '/root/scratch/repro')
import _fixF_img as F
F.setup(sys.argv[1])
import numpy as np, highdicom as hd
bad = []
px = np.array([[0, 7, 15, 200]])
rwvm = hd.pm.RealWorldValueMapping('L', 'e', hd.sr.CodedConcept('1', 'UCUM', 'no units'),
                                   (0, 65535), slope=2, intercept=1)
im = F.make(sys.argv[1], px, RescaleSlope=1, RescaleIntercept=0, WindowCenter=100, WindowWidth=50,
            RealWorldValueMappingSequence=[rwvm])
want = [1.0, 15.0, 31.0, 401.0]
for voi in (False, None):
    try:
        got = im.get_frame(1, apply_real_world_transform=True, apply_voi_transform=voi).ravel().tolist()
        if got != want:
            bad.append(f'rwvm=True, voi={voi}: got {got}, expected {want}')
    except Exception as e:
        bad.append(f'rwvm=True, voi={voi}: raises {type(e).__name__}: {e}')
try:
    got = im.get_frame(1, apply_real_world_transform=True, apply_voi_transform=True).ravel().tolist()
    bad.append(f'rwvm=True, voi=True not refused: {got}')
except ValueError:
    pass
try:
    im.get_frame(1, apply_real_world_transform=True, apply_modality_transform=True)
    bad.append('rwvm=True, modality=True not refused')
except ValueError:
    pass
# defaults unchanged: rwvm present and preferred when nothing is required
got = im.get_frame(1).ravel().tolist()
if got != want:
    bad.append(f'default get_frame: got {got}, expected {want}')
for b in bad: print('D73 present:', b)
sys.exit(1 if bad else 0)
