# D62: Volume.match_geometry axis alignment test |u.v -/+ 1| < tol accepts rotations up to ~4.4e-3
# rad (1 - cos), returning a volume that is NOT geometry_equal(target).
import sys, warnings
warnings.filterwarnings('ignore')
sys.path.insert(0, sys.argv[1] + '/src')
import numpy as np
from highdicom.volume import Volume, VolumeGeometry
bad = []
src = Volume(np.arange(60).reshape(3, 4, 5), np.eye(4), 'PATIENT')
n = 250; a, b, c = 2 * n + 1, 2 * n * (n + 1), 2 * n * (n + 1) + 1
B = np.eye(4); B[:3, :3] = [[b / c, -a / c, 0], [a / c, b / c, 0], [0, 0, 1]]
tgt = VolumeGeometry(B, (3, 4, 5), 'PATIENT')
try:
    r = src.match_geometry(tgt)
    if not r.geometry_equal(tgt):
        bad.append(f'match_geometry succeeded for a target rotated by {np.arctan2(a, b):.2e} rad but result is not '
                   f'geometry_equal(target) (max affine diff {np.abs(r.affine - tgt.affine).max():.2e})')
except RuntimeError:
    pass
# exact / permuted / flipped matches keep working
A2 = np.eye(4)[:, [1, 0, 2, 3]]; A2[:3, 2] *= -1; A2[:3, 3] = [0, 0, 4]
tgt2 = VolumeGeometry(A2, (4, 3, 5), 'PATIENT')
r2 = src.match_geometry(tgt2)
assert r2.geometry_equal(tgt2) and np.array_equal(r2.array, src.array.transpose(1, 0, 2)[:, :, ::-1])
tiny = np.eye(4); t = 1e-7; tiny[:3, :3] = [[np.cos(t), -np.sin(t), 0], [np.sin(t), np.cos(t), 0], [0, 0, 1]]
assert src.match_geometry(VolumeGeometry(tiny, (3, 4, 5), 'PATIENT')).geometry_equal(src)
for x in bad: print('D62 present:', x)
sys.exit(1 if bad else 0)
