import sys
sys.path.insert(0, sys.argv[1] + '/src')
import numpy as np
from highdicom.volume import Volume

arr = np.zeros((2, 3, 4), dtype=np.uint8)
a = Volume(arr, np.eye(4), coordinate_system='PATIENT',
           frame_of_reference_uid='1.2.3.4')
b = Volume(arr, np.eye(4), coordinate_system='PATIENT',
           frame_of_reference_uid='1.2.3.5')
fail = []
if a.geometry_equal(b):
    fail.append('geometry_equal is True for different frame of reference UIDs')
try:
    a.match_geometry(b)
    fail.append('match_geometry did not raise for different frame of reference UIDs')
except RuntimeError:
    pass
# same UID must still be accepted
c = Volume(arr, np.eye(4), coordinate_system='PATIENT',
           frame_of_reference_uid='1.2.3.4')
if not a.geometry_equal(c):
    fail.append('geometry_equal False for identical volumes')
a.match_geometry(c)
if fail:
    print('D14:', '; '.join(fail))
    sys.exit(1)
sys.exit(0)
