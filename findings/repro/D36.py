# D36: SCImage(bits_allocated=12) for uint16 pixels must yield a decodable object whose
# pixels read back unchanged (BitsAllocated must be a value pydicom can decode).
import sys, warnings, io
warnings.filterwarnings('ignore')
sys.path.insert(0, sys.argv[1] + '/src'); sys.path.insert(0, '/root/scratch/probe')
import stubmods; stubmods.install()
import numpy as np, pydicom, highdicom as hd
from highdicom.sc import SCImage

px = (np.arange(6 * 5, dtype=np.uint16).reshape(6, 5) * 137) % 4096
px[0, 0] = 4095
sc = SCImage(pixel_array=px, photometric_interpretation='MONOCHROME2', bits_allocated=12,
             coordinate_system='PATIENT', study_instance_uid=hd.UID(),
             series_instance_uid=hd.UID(), sop_instance_uid=hd.UID(), series_number=1,
             instance_number=1, manufacturer='m', patient_orientation=('L', 'P'))
b = io.BytesIO(); sc.save_as(b)
ds = pydicom.dcmread(io.BytesIO(b.getvalue()))
print('BitsAllocated', ds.BitsAllocated, 'BitsStored', ds.BitsStored, 'HighBit', ds.HighBit)
try:
    got = ds.pixel_array
except Exception as e:
    print('D36 present: pixel data not decodable:', type(e).__name__, str(e)[:120]); sys.exit(1)
if not np.array_equal(got, px):
    print('D36 present: pixels differ after round trip'); sys.exit(1)
if ds.BitsStored != 12 or ds.HighBit != ds.BitsStored - 1 or ds.BitsAllocated < ds.BitsStored:
    print('D36 present: inconsistent bit depth attributes'); sys.exit(1)
sys.exit(0)
