# S4: ParametricMap DimensionIndexValues for patient-coordinate planes (pm/sop.py ~745-755):
# `np.where(unique_positions == pos)[0][0]` compares a (k,3) table with a 3-vector element-wise,
# so the first unique position sharing ANY coordinate wins. For an ordinary axial stack (x, y
# constant) every frame gets index 1.
import sys, warnings, copy
warnings.filterwarnings('ignore')
sys.path.insert(0, sys.argv[1] + '/src'); sys.path.insert(0, '/root/scratch/probe')
import stubmods; stubmods.install()
import numpy as np, pydicom, highdicom as hd
from pydicom.sr.codedict import codes

base = pydicom.dcmread(sys.argv[1] + '/data/test_files/ct_image.dcm')
def mk(i):
    ds = copy.deepcopy(base); ds.Rows, ds.Columns = 2, 3; ds.SOPInstanceUID = hd.UID()
    ds.ImagePositionPatient = [0.0, 0.0, 2.5 * i]; ds.ImageOrientationPatient = [1, 0, 0, 0, 1, 0]
    ds.PixelSpacing = [1.0, 1.0]; ds.PixelData = np.zeros((2, 3), np.int16).tobytes(); return ds
src = [mk(i) for i in range(3)]
arr = np.arange(3 * 2 * 3, dtype=np.float32).reshape(3, 2, 3, 1)
m = hd.pm.RealWorldValueMapping(lut_label='m', lut_explanation='e', unit=codes.UCUM.NoUnits,
                                value_range=(-1e38, 1e38), slope=1.0, intercept=0.0)
pm = hd.pm.ParametricMap(src, arr, hd.UID(), 1, hd.UID(), 1, 'm', 'mm', '1', 'sn',
                         contains_recognizable_visual_features=False,
                         real_world_value_mappings=[[m]], window_center=1.0, window_width=2.0)
rows = [(list(f.FrameContentSequence[0].DimensionIndexValues)
         if hasattr(f.FrameContentSequence[0].DimensionIndexValues, '__iter__')
         else [f.FrameContentSequence[0].DimensionIndexValues],
         [float(v) for v in f.PlanePositionSequence[0].ImagePositionPatient])
        for f in pm.PerFrameFunctionalGroupsSequence]
for r in rows: print('DimensionIndexValues', r[0], 'ImagePositionPatient', r[1])
idx = [tuple(r[0]) for r in rows]
if len(set(idx)) != len(idx):
    print('S4 present: distinct plane positions share the same DimensionIndexValues'); sys.exit(1)
order = sorted(range(3), key=lambda k: rows[k][1][2])
if [idx[k] for k in order] != sorted(idx):
    print('S4 present: DimensionIndexValues not monotone in position'); sys.exit(1)
sys.exit(0)
