"""D31: _SR.from_dataset(copy=True) retypes nested items of the caller's dataset."""
import sys
sys.path.insert(0, sys.argv[1] + '/src')
sys.path.insert(0, '/root/scratch/probe'); import stubmods; stubmods.install()
import pydicom
from pydicom.dataset import Dataset
from highdicom.sr import Comprehensive3DSR, ComprehensiveSR, EnhancedSR
from highdicom.sr import ContentItem, CodedConcept

ds = pydicom.dcmread(sys.argv[1] + '/data/test_files/sr_document.dcm')
cls = {c.__name__: c for c in (Comprehensive3DSR, ComprehensiveSR, EnhancedSR)}
name = ds.SOPClassUID.name.replace(' ', '').replace('Storage', '')
def types(d):
    out = [type(d.ConceptNameCodeSequence[0]).__name__]
    for it in d.ContentSequence:
        out.append(type(it).__name__)
        out.append(type(it.ConceptNameCodeSequence[0]).__name__)
    return out
before = types(ds)
sr = cls[name].from_dataset(ds, copy=True)
after = types(ds)
fails = []
if before != after:
    fails.append(f'caller dataset retyped: {sorted(set(before))} -> {sorted(set(after))}')
if any(a is b for a, b in zip(sr.content[0].ContentSequence, ds.ContentSequence)):
    fails.append('copy shares content items with the original')
if not all(isinstance(i, ContentItem) for i in sr.content[0].ContentSequence):
    fails.append('content of the new SR not converted')
if fails:
    print('D31 present:', *fails, sep='\n  ')
    sys.exit(1)
sys.exit(0)
