# tiled get_volume(row_end=0 / column_end=0), 1-based convention: get_total_pixel_matrix refuses (ValueError),
# get_volume returns all rows/columns but the last (0 -> index -1 after the second standardisation)
import sys; sys.path[:0] = ['/repo/src', '/verif/harness']
import stub_modules; stub_modules.install()
import numpy as np, highdicom as hd, synth
im = hd.Image.from_dataset(synth.sm_tiled(5, 6, 2, 3, tiled_full=True, samples=1,
                           pixels=np.arange(1, 31, dtype=np.uint8).reshape(5, 6, 1)), copy=False)
try: im.get_total_pixel_matrix(row_end=0, apply_icc_profile=False)
except ValueError as e: print('get_total_pixel_matrix(row_end=0): ValueError')
print('get_volume(row_end=0).array.shape =', im.get_volume(row_end=0, apply_icc_profile=False).array.shape)   # (1, 4, 6)
seg = synth.make_seg([synth.sm_tiled(5, 6, 2, 3)], np.ones((1, 5, 6), np.uint8), 'BINARY', [1], tile_pixel_array=True)
print('Segmentation.get_volume(column_end=0).array.shape =', seg.get_volume(column_end=0).array.shape)        # (1, 5, 5, 1)
