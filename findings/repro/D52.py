# D52: decode_frame native 1-bit branch reshaped to (rows, columns) ignoring samples_per_pixel, so
# a 3-sample 1-bit frame accepted by encode_frame could never be decoded.
import sys, warnings
warnings.filterwarnings('ignore')
sys.path.insert(0, sys.argv[1] + '/src')
import numpy as np
from pydicom.uid import ExplicitVRLittleEndian
from highdicom.frame import encode_frame, decode_frame
bad = []
rng = np.random.RandomState(0)
for shape in ((4, 4, 3), (2, 4, 3), (4, 6)):
    arr = rng.randint(0, 2, shape).astype(np.uint8)
    spp = 1 if arr.ndim == 2 else shape[2]
    kw = dict(bits_allocated=1, bits_stored=1,
              photometric_interpretation='RGB' if spp == 3 else 'MONOCHROME2',
              pixel_representation=0, planar_configuration=0 if spp == 3 else None)
    try:
        enc = encode_frame(arr, transfer_syntax_uid=ExplicitVRLittleEndian, **kw)
    except ValueError:
        continue  # refusing at encode is also a valid repair
    try:
        dec = decode_frame(enc, transfer_syntax_uid=ExplicitVRLittleEndian, rows=shape[0],
                           columns=shape[1], samples_per_pixel=spp, **kw)
        if dec.shape != arr.shape or not np.array_equal(dec, arr):
            bad.append(f'{shape}: round trip differs (shape {dec.shape})')
    except Exception as e:
        bad.append(f'{shape}: encode_frame accepted, decode_frame raised {type(e).__name__}: {e}')
for b in bad: print('D52 present:', b)
sys.exit(1 if bad else 0)
