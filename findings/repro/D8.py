import sys
sys.path.insert(0, sys.argv[1] + '/src')
import numpy as np
from highdicom.spatial import create_affine_matrix_from_components

fail = []
for sp in (2.0, 2):
    try:
        got = create_affine_matrix_from_components(
            spacing=sp, position=[1.0, 2.0, 3.0], patient_orientation='LPH',
        )
    except Exception as e:
        fail.append(f'spacing={sp!r}: raised {type(e).__name__}: {e}')
        continue
    exp = create_affine_matrix_from_components(
        spacing=[2.0, 2.0, 2.0], position=[1.0, 2.0, 3.0],
        patient_orientation='LPH',
    )
    if not np.array_equal(got, exp):
        fail.append(f'spacing={sp!r}: affine differs from spacing=[2, 2, 2]')
if fail:
    print('D8:', '; '.join(fail))
    sys.exit(1)
sys.exit(0)
