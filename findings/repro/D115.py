import sys; sys.path[:0] = ['/repo/src', '/verif/harness']
import stub_modules; stub_modules.install()
import numpy as np, pydicom, highdicom as hd
from pydicom.sr.codedict import codes
from highdicom.seg.content import DimensionIndexSequence
sm = pydicom.dcmread('/repo/data/test_files/sm_image.dcm')            # 25 tiles of 10 x 10
sm.TotalPixelMatrixOriginSequence[0].ZOffsetInSlideCoordinateSystem = 2.5   # the slide's focal plane
pps = DimensionIndexSequence('SLIDE').get_plane_positions_of_image(sm)
m = hd.pm.RealWorldValueMapping('1', 'f', codes.UCUM.NoUnits, [0, 1000], intercept=0, slope=1)
tiles = np.ones((25, 10, 10), np.uint16); order = list(range(25))[::-1]
for pos, arr in ((None, tiles), ([pps[i] for i in order], tiles[order])):
    pm = hd.pm.ParametricMap([sm], arr, hd.UID(), 1, hd.UID(), 1, 'm', 'mm', '1', '1', False, [m], 500., 1000., plane_positions=pos)
    print(hd.Image.from_dataset(pm).get_volume_geometry().position, pm.TotalPixelMatrixOriginSequence[0].get("ZOffsetInSlideCoordinateSystem"),
          float(pm.PerFrameFunctionalGroupsSequence[0].PlanePositionSlideSequence[0].ZOffsetInSlideCoordinateSystem))
