import sys
sys.path.insert(0, sys.argv[1] + '/src')
import numpy as np
from pydicom.dataset import Dataset
from highdicom.content import LUT

ds = Dataset()
ds.LUTDescriptor = [4, 0, 8]
ds.LUTData = np.arange(4, dtype=np.uint8).tobytes()
lut = LUT.from_dataset(ds, copy=True)
fail = []
if lut is ds:
    fail.append('returned object is the caller\'s dataset (not a copy)')
if type(ds) is not Dataset:
    fail.append(f'caller\'s dataset retyped to {type(ds).__name__}')
if not isinstance(lut, LUT):
    fail.append('result is not a LUT')
lut2 = LUT.from_dataset(ds, copy=False)
if lut2 is not ds:
    fail.append('copy=False did not return the same object')
if fail:
    print('FAIL:', '; '.join(fail))
    sys.exit(1)
print('ok')
