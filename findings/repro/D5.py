# D5: lazy reading of natively encoded bit-packed frames whose size is not a multiple of 8
# pixels must return the same pixels as eager reading (frames straddle byte boundaries)
import sys, io
sys.path.insert(0, '/root/scratch/repro')
from _fixA_util import setup
np, pydicom, hd, mk, desc, seg = setup(sys.argv[1])
from highdicom.io import ImageFileReader
from pydicom.filebase import DicomBytesIO
rows, cols, P = 3, 5, 4   # 15 pixels per frame
src = [mk(i, rows, cols) for i in range(P)]
rng = np.random.RandomState(0)
arr = (rng.rand(P, rows, cols) > 0.5).astype(np.uint8)
arr[:, 0, 0] = 1; arr[:, -1, -1] = 1
s = seg(src, arr, 'BINARY', [1], transfer_syntax_uid='1.2.840.10008.1.2.1')
b = io.BytesIO(); s.save_as(b); data = b.getvalue()
fail = None
r = ImageFileReader(DicomBytesIO(data)); r.open()
for i in range(P):
    eager = s.get_stored_frame(i + 1)
    try:
        f = r.read_frame(i)
    except Exception as e:
        fail = f'lazy read_frame({i}) raised {type(e).__name__}: {e}'; break
    if not np.array_equal(f, eager):
        fail = f'lazy read_frame({i}) differs from eager frame'; break
    if r.read_frame_raw(i) != s.get_raw_frame(i + 1):
        fail = f'lazy raw frame {i} differs from eager raw frame'; break
if fail:
    print('D5:', fail); sys.exit(1)
sys.exit(0)
