import sys, signal
sys.path[:0] = ['/repo/src', '/verif/harness']
import stub_modules; stub_modules.install()
from highdicom.sr import TextContentItem, CodedConcept
from highdicom.sr.value_types import ContentSequence
nm = CodedConcept('100', '99VERIF', 'name')
s = ContentSequence([TextContentItem(nm, 'a', relationship_type='CONTAINS')])
ref = [1]; ref.extend(ref); print('plain list after l.extend(l):', len(ref))      # 2
def stop(*_): raise TimeoutError
signal.signal(signal.SIGALRM, stop); signal.alarm(2)
try:
    s.extend(s)                      # `for item in val: self.append(item)` iterates the list it grows
    print('ContentSequence after s.extend(s):', len(s))
except TimeoutError:
    print('s.extend(s) still running after 2 s; len(s) =', len(s), ' len(find) =', len(s._lut[nm]))
