import sys; sys.path[:0] = ['/repo/src', '/verif/harness']
import stub_modules; stub_modules.install()
import numpy as np
from pydicom.sr.codedict import codes
from highdicom import sr
name = sr.CodedConcept('M-1', '99ACME', 'Local diameter', '2.1')          # a measurement name WITH a scheme version
grp = sr.PlanarROIMeasurementsAndQualitativeEvaluations(
    tracking_identifier=sr.TrackingIdentifier(uid='1.2.3.4', identifier='g1'),
    referenced_region=sr.ImageRegion(graphic_type='POINT', graphic_data=np.array([[1.0, 1.0]]),
                                     source_image=sr.SourceImageForRegion('1.2.840.10008.5.1.4.1.1.2', '1.2.3.5')),
    measurements=[sr.Measurement(name=name, value=3.0, unit=codes.UCUM.Millimeter)])
print('stored name == name        :', grp.get_measurements()[0].name == name)              # True
print('get_measurements(name)     :', len(grp.get_measurements(name=name)), '(expected 1)')  # 0
plain = sr.CodedConcept('M-1', '99ACME', 'Local diameter')                 # the un-versioned code is a different code
print('get_measurements(unversioned):', len(grp.get_measurements(name=plain)), '(expected 0)')  # 1
